/* Batch executor: cases on stdin -> one JSON observation record per line on stdout.
 *
 *   A <sections> <modes> <tlds> <allow|-> <hex>    full address record
 *        sections bit0: high-level eav_* API      (per mode m in modes, tld t in tlds)
 *                 bit1: low-level is_<rfc>_email   (same configurations)
 *                 bit2: per-part validators on the halves split at the last '@'
 *                 bit3: direct idn2_to_ascii_8z on the domain half
 *                 bit4: "rfc changed after setup without a new setup" probe (C01/4)
 *                 bit5: two confirmed set-ups in a row (m1 then m2) on one object, then validate
 *   L <hex>                                         the four local-part validators
 *   D <hex>                                         domain-part validators on the string
 *   N <fn> <k> <tok,tok,...> <prefixhex|-> <suffixhex|->   enumerate all token strings of length 0..k in canonical
 *                                                   order, call validator fn on prefix+string+suffix, print packed
 *   S <rfc-int>                                     eav_setup probe with an arbitrary int in eav_t.rfc
 *
 * Every input is copied into an exactly sized heap block; eav_t lives in fresh heap memory.
 */
#include "common.h"
#include <locale.h>
#include <errno.h>
#include <stdbool.h>
#include <limits.h>
#include <eav.h>
#include <eav/auto_tld.h>
#ifdef HAVE_LIBIDN2
#include <idn2.h>
#endif

#ifdef HAVE_IDNKIT
#define IDN_RC_INT(x) ((int)(x))
#else
#define IDN_RC_INT(x) (x)
#endif

#ifdef VERIF_WRAP_IDN2
/* Built with -Wl,--wrap=idn2_to_ascii_8z: when VERIF_IDN_FAIL=<code> is set, EVERY conversion (the library's and the driver's own
 * reference call alike) fails with that code, optionally leaving a live output buffer (VERIF_IDN_FAIL_BUF=1). */
int __real_idn2_to_ascii_8z(const char *input, char **output, int flags);
int __wrap_idn2_to_ascii_8z(const char *input, char **output, int flags);
int __wrap_idn2_to_ascii_8z(const char *input, char **output, int flags)
{
    static int mode = -1, code = 0, buf = 0;
    if (mode < 0) {
        const char *c = getenv("VERIF_IDN_FAIL"), *b = getenv("VERIF_IDN_FAIL_BUF");
        mode = c ? 1 : 0; code = c ? atoi(c) : 0; buf = b ? atoi(b) : 0;
    }
    if (mode && code) {
        if (buf && output) { char *p = malloc(24); strcpy(p, "left.over.example"); *output = p; }
        errno = ENOMEM;
        return code;
    }
    {
        /* VERIF_IDN_ERRNO=1: the converter works as usual but leaves a non-zero errno behind (a library may probe files, call iconv ...):
         * its return code alone says whether the conversion failed */
        static int leave = -1;
        int rc = __real_idn2_to_ascii_8z(input, output, flags);
        if (leave < 0) leave = getenv("VERIF_IDN_ERRNO") ? 1 : 0;
        if (leave) errno = ENOENT;
        return rc;
    }
}
#endif

static void put_result(const eav_result_t *r)
{
    if (r == NULL) { printf("null"); return; }
    printf("%d,%d,%d,%d,%d", (int)r->is_ipv4, (int)r->is_ipv6, (int)r->is_domain, r->rc, IDN_RC_INT(r->idn_rc));
#ifdef EAV_EXTRA
    putchar(',');
    if (r->lpart) put_hex(stdout, r->lpart, strlen(r->lpart)); else printf("null");
    putchar(',');
    if (r->domain) put_hex(stdout, r->domain, strlen(r->domain)); else printf("null");
#endif
}

/* eav_t always lives in fresh heap memory.  VERIF_POISON=none leaves it uninitialised (for memcheck's definedness
 * tracking); VERIF_POISON=<int> overrides the fill byte (poison differential). */
static int g_poison_mode = -2;
static eav_t *fresh_eav(int poison)
{
    eav_t *e = malloc(sizeof *e);
    if (g_poison_mode == -2) {
        const char *p = getenv("VERIF_POISON");
        g_poison_mode = !p ? -1 : !strcmp(p, "none") ? -3 : (int)strtol(p, NULL, 0);
    }
    if (g_poison_mode == -3) return e;
    memset(e, g_poison_mode >= 0 ? g_poison_mode : poison, sizeof *e);
    return e;
}

static void hl_one(const char *s, size_t n, int mode, int tld, int have_allow, int allow)
{
    eav_t *e = fresh_eav(0xA5);
    int sr, ret;
    const char *msg;
    /* tld_check and allow_tld are plain settings read at validation time (C13: the outcome is a function of the confirmed mode and the
     * *current* tld_check / allow_tld): every other call assigns them only after eav_setup, which ran under the opposite tld_check */
    static unsigned order_ctr = 0;
    int late_settings = (order_ctr++ & 1) && !getenv("VERIF_SETTINGS_BEFORE_SETUP");
    g_stage = "eav_init";
    eav_init(e);
    e->rfc = (EAV_RFC)mode;
    e->tld_check = (late_settings ? !tld : tld) ? true : false;
    if (have_allow && !late_settings) e->allow_tld = allow;
    g_stage = "eav_setup";
    sr = eav_setup(e);
    if (sr != 0) { printf("[-1,%d]", sr); eav_free(e); free(e); return; }
    if (late_settings) {
        e->tld_check = tld ? true : false;
        if (have_allow) e->allow_tld = allow;
    }
    g_stage = "eav_is_email";
    errno = (order_ctr & 2) ? EDOM : 0;          /* a stale errno from the caller's earlier work must not matter */
    ret = eav_is_email(e, s, n);
    g_stage = "eav_errstr";
    msg = eav_errstr(e);
    printf("[%d,%d,", ret, e->errcode);
    put_jstr(stdout, msg);
    putchar(',');
    put_result(e->result);
    putchar(']');
    g_stage = "eav_free";
    eav_free(e);
    free(e);
}

#ifndef HAVE_IDNKIT
static void ll_one(const char *s, size_t n, int mode, int tld)
{
    eav_result_t *r = NULL;
    g_stage = "is_X_email";
    switch (mode) {
    case 0: r = is_822_email(s, n, tld); break;
    case 1: r = is_5321_email(s, n, tld); break;
    case 2: r = is_5322_email(s, n, tld); break;
    case 3: r = is_6531_email(s, n, tld); break;
    }
    putchar('[');
    put_result(r);
    putchar(']');
    g_stage = "eav_result_free";
    eav_result_free(r);
}

static void dom_section(const char *D, size_t dl, int want_idn2)
{
    int r0 = -12345, r1 = -12345, asc, u0, u1, sp;
    const char *dot;
    g_stage = "is_ascii_domain";
    asc = is_ascii_domain(D, D + dl);
    g_stage = "is_utf8_domain";
    u0 = is_utf8_domain(&r0, D, D + dl, false);
    u1 = is_utf8_domain(&r1, D, D + dl, true);
    g_stage = "is_special_domain";
    sp = is_special_domain(D, D + dl);
    printf("[%d,%d,%d,%d,%d,%d,", asc, u0, r0, u1, r1, sp);
    dot = strrchr(D, '.');
    g_stage = "is_tld";
    if (dot) printf("%d,", is_tld(dot + 1, D + dl)); else printf("null,");
    /* single-label lookup as well */
    printf("%d,", is_tld(D, D + dl));
#ifdef HAVE_LIBIDN2
    if (want_idn2 && dl > 0) {
        char *out = NULL;
        int rc;
        g_stage = "idn2-direct";
        rc = idn2_to_ascii_8z(D, &out, IDN2_NONTRANSITIONAL);
        printf("%d,", rc);
        if (rc == IDN2_OK && out) { put_hex(stdout, out, strlen(out)); } else printf("null");
        if (out) idn2_free(out);
    } else
#endif
        printf("null,null");
    (void)want_idn2;
    /* literal: content between '[' and the last ']' */
    if (D[0] == '[') {
        const char *bre = strrchr(D, ']');
        if (bre) {
            char *in = memdupz(D + 1, (size_t)(bre - D - 1));
            size_t il = (size_t)(bre - D - 1);
            const char *colon;
            g_stage = "is_ipaddr";
            printf(",[%d,%d,%d,", is_ipaddr(in, in + il), is_ipv4(in, in + il), is_ipv6(in, in + il));
            colon = strchr(in, ':');
            if (colon) {
                char *rest = memdupz(colon + 1, il - (size_t)(colon + 1 - in));
                size_t rl = strlen(rest);
                printf("%d,%d]", is_ipaddr(rest, rest + rl), is_ipv6(rest, rest + rl));
                free(rest);
            } else printf("null,null]");
            free(in);
        } else printf(",null");
    } else printf(",null");
    putchar(']');
}
#endif

static char *abase;

static void do_A(char *line)
{
    unsigned sections, modes, tlds;
    char allow_s[32];
    int have_allow = 0, allow = 0, off = 0, m, t, first;
    size_t n;
    char *s;
    if (sscanf(line, "A %x %x %x %31s %n", &sections, &modes, &tlds, allow_s, &off) < 4) { printf("{\"err\":\"parse\"}\n"); return; }
    if (strcmp(allow_s, "-") != 0) { have_allow = 1; allow = (int)strtol(allow_s, NULL, 0); }
    s = hexdup_in(line + off, &n);
    abase = s;
    putchar('{');
    first = 1;
    if (sections & 1) {
        printf("\"hl\":{");
        for (m = 0; m < 4; m++) for (t = 0; t < 2; t++) {
            if (!(modes & (1u << m)) || !(tlds & (1u << t))) continue;
            if (!first) putchar(',');
            first = 0;
            printf("\"%d\":", m * 2 + t);
            hl_one(s, n, m, t, have_allow, allow);
        }
        putchar('}');
        first = 0;
    }
#ifndef HAVE_IDNKIT
    if (sections & 2) {
        int f2 = 1;
        if (!first) putchar(',');
        printf("\"ll\":{");
        for (m = 0; m < 4; m++) for (t = 0; t < 2; t++) {
            if (!(modes & (1u << m)) || !(tlds & (1u << t))) continue;
            if (!f2) putchar(',');
            f2 = 0;
            printf("\"%d\":", m * 2 + t);
            ll_one(s, n, m, t);
        }
        putchar('}');
        first = 0;
    }
    if (sections & 4) {
        long at = -1;
        size_t i;
        if (!first) putchar(',');
        first = 0;
        for (i = 0; i < n; i++) if (s[i] == '@') at = (long)i;
        printf("\"at\":%ld", at);
        if (at >= 0) {
            char *L = memdupz(s, (size_t)at);
            char *D = memdupz(s + at + 1, n - (size_t)at - 1);
            size_t ll = (size_t)at, dl = n - (size_t)at - 1;
            g_stage = "is_X_local";
            printf(",\"loc\":[%d,%d,%d,%d]", is_822_local(L, L + ll), is_5321_local(L, L + ll),
                   is_5322_local(L, L + ll), is_6531_local(L, L + ll));
            printf(",\"dom\":");
            if (dl > 0) dom_section(D, dl, (sections & 8) != 0); else printf("null");
            free(L); free(D);
        }
    }
#endif
    if (sections & 16) {
        /* rfc assigned after a successful setup and NOT confirmed by a new setup must not be applied:
         * for each target mode m: setup in mode m, then scribble each other value into rfc, validate. */
        int f3 = 1;
        if (!first) putchar(',');
        first = 0;
        printf("\"late\":{");
        for (m = 0; m < 4; m++) {
            int o;
            if (!(modes & (1u << m))) continue;
            for (o = 0; o < 4; o++) {
                eav_t *e;
                int ret;
                if (o == m) continue;
                e = fresh_eav(0x5A);
                eav_init(e);
                e->rfc = (EAV_RFC)m;
                e->tld_check = false;
                if (eav_setup(e) != 0) { eav_free(e); free(e); continue; }
                e->rfc = (EAV_RFC)o;
                ret = eav_is_email(e, s, n);
                if (!f3) putchar(',');
                f3 = 0;
                printf("\"%d%d\":[%d,%d]", m, o, ret, e->errcode);
                eav_free(e); free(e);
            }
        }
        putchar('}');
    }
    if (sections & 32) {
        /* two confirmed set-ups in a row on one object (m1 then m2, including m1 == m2): mode m2's rules must apply */
        int f4 = 1, m1, m2;
        if (!first) putchar(',');
        first = 0;
        printf("\"sw\":{");
        for (m1 = 0; m1 < 4; m1++) for (m2 = 0; m2 < 4; m2++) {
            eav_t *e;
            int ret;
            if (!(modes & (1u << m2))) continue;
            e = fresh_eav(0xC3);
            eav_init(e);
            e->tld_check = false;
            e->rfc = (EAV_RFC)m1;
            g_stage = "eav_setup#1";
            if (eav_setup(e) != 0) { eav_free(e); free(e); continue; }
            {   /* a second, long-lived object is set up for m2 in between (set-up state must be per object, not per thread / process) */
                static eav_t *other = NULL;
                if (!other) { other = malloc(sizeof *other); eav_init(other); }
                other->rfc = (EAV_RFC)m2;
                g_stage = "eav_setup(other object)";
                (void)eav_setup(other);
            }
            e->rfc = (EAV_RFC)m2;
            g_stage = "eav_setup#2";
            if (eav_setup(e) != 0) { eav_free(e); free(e); continue; }
            g_stage = "eav_is_email-after-2-setups";
            ret = eav_is_email(e, s, n);
            if (!f4) putchar(',');
            f4 = 0;
            printf("\"%d%d\":[%d,%d]", m1, m2, ret, e->errcode);
            eav_free(e); free(e);
        }
        putchar('}');
    }
    printf("}\n");
    hexfree(abase);
}

#ifndef HAVE_IDNKIT
/* X <hex> <suffixhex> : the four local-part validators on the sub-range [buf, buf+len) of a buffer that continues with
 * <suffix> (then NUL): the verdict must depend on the range only, not on what follows it */
static void do_X(char *line)
{
    char h1[1 << 18], h2[256];
    size_t n, sl;
    char *s, *suf, *buf;
    if (sscanf(line, "X %262143s %255s", h1, h2) != 2) { printf("null\n"); return; }
    s = hexdup(h1, &n);
    suf = hexdup(h2, &sl);
    buf = malloc(n + sl + 1);
    memcpy(buf, s, n); memcpy(buf + n, suf, sl); buf[n + sl] = 0;
    g_stage = "is_X_local-subrange";
    printf("[%d,%d,%d,%d]\n", is_822_local(buf, buf + n), is_5321_local(buf, buf + n), is_5322_local(buf, buf + n),
           is_6531_local(buf, buf + n));
    free(buf); free(s); free(suf);
}

/* K <hex> : is_tld() alone on the string (cheap table look-up probe) */
static void do_K(char *line)
{
    size_t n;
    char *s = hexdup_in(line + 2, &n);
    g_stage = "is_tld";
    printf("%d\n", is_tld(s, s + n));
    hexfree(s);
}

static void do_L(char *line)
{
    size_t n;
    char *s = hexdup_in(line + 2, &n);
    g_stage = "is_X_local";
    printf("[%d,%d,%d,%d]\n", is_822_local(s, s + n), is_5321_local(s, s + n), is_5322_local(s, s + n),
           is_6531_local(s, s + n));
    hexfree(s);
}

typedef int (*val_f)(const char *, const char *);

/* G <mask> <unit-hex> <reps> <tail-hex|-> <suffix-hex|-> <prefix-hex|-> : the string unit x reps + tail is built here (it may exceed
 * 2 GiB, which a hex line cannot carry).  mask bits 0-3: modes; bit 4: the body is a local part (direct local validators, "l");
 * bit 5: the body is a domain (direct is_ascii_domain / is_ipv4 / is_ipv6 / is_ipaddr / is_special_domain / is_utf8_domain, "d").  With a
 * prefix or suffix the address prefix+body+suffix also goes through the high-level call in the selected modes ("hl").
 * Output {"n":bytes,...} or {"skip":"nomem"}. */
static void do_G(char *line)
{
    char uh[256], th[256], sh[512], ph[512];
    unsigned long long reps;
    size_t ul, tl, sl, pl, n;
    char *u, *t, *sfx, *pfx, *buf, *body;
    int m;
    unsigned mask;
    val_f lf[4] = { is_822_local, is_5321_local, is_5322_local, is_6531_local };
    if (sscanf(line, "G %x %255s %llu %255s %511s %511s", &mask, uh, &reps, th, sh, ph) != 6) { printf("{\"err\":\"parse\"}\n"); return; }
    u = hexdup(uh, &ul); t = hexdup(th, &tl); sfx = hexdup(sh, &sl); pfx = hexdup(ph, &pl);
    n = ul * (size_t)reps + tl;
    buf = malloc(pl + n + sl + 1);
    if (!buf) { printf("{\"skip\":\"nomem\"}\n"); free(u); free(t); free(sfx); free(pfx); return; }
    memcpy(buf, pfx, pl);
    body = buf + pl;
    if (reps && ul) {                               /* fill by doubling */
        size_t total = ul * (size_t)reps, have = ul;
        memcpy(body, u, ul);
        while (have < total) { size_t k = have < total - have ? have : total - have; memcpy(body + have, body, k); have += k; }
    }
    memcpy(body + ul * (size_t)reps, t, tl);
    body[n] = 0;
    printf("{\"n\":%zu", n);
    if (mask & 0x10) {
        g_stage = "is_X_local";
        printf(",\"l\":[");
        for (m = 0; m < 4; m++) {
            if (m) putchar(',');
            if (mask & (1u << m)) printf("%d", lf[m](body, body + n)); else printf("null");
        }
        putchar(']');
    }
    if (mask & 0x20) {
        int r = -12345, v;
        g_stage = "is_ascii_domain";
        printf(",\"d\":{\"ascii\":%d", is_ascii_domain(body, body + n));
        g_stage = "is_ipv4"; printf(",\"v4\":%d", is_ipv4(body, body + n));
        g_stage = "is_ipv6"; printf(",\"v6\":%d", is_ipv6(body, body + n));
        g_stage = "is_ipaddr"; printf(",\"ip\":%d", is_ipaddr(body, body + n));
        g_stage = "is_special_domain"; printf(",\"special\":%d", is_special_domain(body, body + n));
        if (mask & 8) {
            g_stage = "is_utf8_domain";
            v = is_utf8_domain(&r, body, body + n, false);
            printf(",\"utf8\":[%d,%d]", v, r);
        }
        putchar('}');
    }
    if (sl || pl) {
        int first = 1;
        memcpy(body + n, sfx, sl);
        body[n + sl] = 0;
        printf(",\"hl\":{");
        for (m = 0; m < 4; m++) {
            if (!(mask & (1u << m))) continue;
            if (!first) putchar(',');
            first = 0;
            printf("\"%d\":", m);
            hl_one(buf, pl + n + sl, m, 0, 0, 0);
        }
        putchar('}');
    }
    printf("}\n");
    free(buf); free(u); free(t); free(sfx); free(pfx);
}

/* R <count> <hex> : one object per mode m: set up, then rfc is set to another value that is never confirmed, then the address is validated
 * <count> times: every outcome must equal the first (a call counter that wraps and re-reads the settings, growth, drift).
 * Output {"m":[mismatches, index of the first one, first ret, first errcode, deviating ret, deviating errcode]} */
static void do_R(char *line)
{
    long count = 0; int off = 0, m;
    size_t n; char *s;
    if (sscanf(line, "R %ld %n", &count, &off) < 1) { printf("{\"err\":\"parse\"}\n"); return; }
    s = hexdup_in(line + off, &n);
    putchar('{');
    for (m = 0; m < 4; m++) {
        eav_t *e = fresh_eav(0x6B);
        long i, bad = 0, first_bad = -1; int r0 = 0, e0 = 0, rb = 0, eb = 0;
        eav_init(e);
        e->rfc = (EAV_RFC)m;
        e->tld_check = (m & 1) ? true : false;
        g_stage = "eav_setup";
        if (eav_setup(e) != 0) { eav_free(e); free(e); printf("%s\"%d\":null", m ? "," : "", m); continue; }
        e->rfc = (EAV_RFC)((m + 1) % 4);
        g_stage = "eav_is_email-repeated";
        for (i = 0; i < count; i++) {
            int ret = eav_is_email(e, s, n);
            if (i == 0) { r0 = ret; e0 = e->errcode; }
            else if (ret != r0 || e->errcode != e0) { if (!bad) { first_bad = i; rb = ret; eb = e->errcode; } bad++; }
        }
        printf("%s\"%d\":[%ld,%ld,%d,%d,%d,%d]", m ? "," : "", m, bad, first_bad, r0, e0, rb, eb);
        eav_free(e); free(e);
    }
    printf("}\n");
    hexfree(s);
}

static void do_D(char *line)
{
    size_t n;
    char *s = hexdup_in(line + 2, &n);
    if (n == 0) {
        int r = -12345;
        printf("[%d,%d]\n", is_ascii_domain(s, s), is_utf8_domain(&r, s, s, false));
    } else {
        dom_section(s, n, 1);
        putchar('\n');
    }
    hexfree(s);
}

/* ---- in-driver enumeration (canonical order: length-major, then lexicographic by token index) ---- */
static int v_utf8dom0(const char *a, const char *b) { int r; return is_utf8_domain(&r, a, b, false); }
static int v_utf8dom1(const char *a, const char *b) { int r; return is_utf8_domain(&r, a, b, true); }

static val_f fn_by_name(const char *nm)
{
    if (!strcmp(nm, "l822")) return is_822_local;
    if (!strcmp(nm, "l5321")) return is_5321_local;
    if (!strcmp(nm, "l5322")) return is_5322_local;
    if (!strcmp(nm, "l6531")) return is_6531_local;
    if (!strcmp(nm, "adom")) return is_ascii_domain;
    if (!strcmp(nm, "udom0")) return v_utf8dom0;
    if (!strcmp(nm, "udom1")) return v_utf8dom1;
    if (!strcmp(nm, "ipaddr")) return is_ipaddr;
    if (!strcmp(nm, "ipv4")) return is_ipv4;
    if (!strcmp(nm, "ipv6")) return is_ipv6;
    if (!strcmp(nm, "special")) return is_special_domain;
    if (!strcmp(nm, "tld")) return is_tld;
    return NULL;
}

#define MAXTOK 64
static void do_N(char *line)
{
    char fn[32], toks[2048], pre_h[1024], suf_h[1024];
    int k, ntok = 0, len, i;
    char *tok[MAXTOK]; size_t tlen[MAXTOK];
    size_t prel, sufl;
    char *pre, *suf, *p;
    val_f f;
    int idx[16];
    long count = 0;
    if (sscanf(line, "N %31s %d %2047s %1023s %1023s", fn, &k, toks, pre_h, suf_h) != 5) { printf("ERR parse\n"); return; }
    f = fn_by_name(fn);
    if (!f || k > 15) { printf("ERR fn\n"); return; }
    for (p = strtok(toks, ","); p && ntok < MAXTOK; p = strtok(NULL, ","))
        tok[ntok] = hexdup(p, &tlen[ntok]), ntok++;
    pre = hexdup(pre_h, &prel);
    suf = hexdup(suf_h, &sufl);
    for (len = 0; len <= k; len++) {
        for (i = 0; i < len; i++) idx[i] = 0;
        for (;;) {
            size_t tot = prel + sufl, o;
            char *s;
            int rc;
            for (i = 0; i < len; i++) tot += tlen[idx[i]];
            size_t ao = align_mode() ? (size_t)((count * 5 + 1) % 16) : 0;
            char *sbase = malloc(ao + tot + 1);
            s = sbase + ao;
            memcpy(s, pre, prel); o = prel;
            for (i = 0; i < len; i++) { memcpy(s + o, tok[idx[i]], tlen[idx[i]]); o += tlen[idx[i]]; }
            memcpy(s + o, suf, sufl); o += sufl;
            s[o] = 0;
            g_case = count;
            rc = f(s, s + o);
            /* pack: rc in [-40, 40] -> one printable char */
            putchar((rc >= -40 && rc <= 40) ? (char)(80 + rc) : '!');
            free(sbase);
            count++;
            if ((count & 0x3fff) == 0) putchar('\n');
            /* next */
            for (i = len - 1; i >= 0; i--) {
                if (++idx[i] < ntok) break;
                idx[i] = 0;
            }
            if (i < 0) break;
        }
    }
    printf("\nEND %ld\n", count);
    for (i = 0; i < ntok; i++) free(tok[i]);
    free(pre); free(suf);
}

/* U <fn> <nbytes> <lo> <hi> <step> <prefixhex|-> <suffixhex|-> : every nbytes-long big-endian byte sequence with value in
 * [lo,hi) stepping by <step>, skipping sequences that contain a NUL byte; validator on prefix+seq+suffix; packed. */
static void do_U(char *line)
{
    char fn[32], pre_h[1024], suf_h[1024];
    int nb, i;
    unsigned long lo, hi, step, v;
    size_t prel, sufl;
    char *pre, *suf;
    val_f f;
    long count = 0;
    if (sscanf(line, "U %31s %d %lu %lu %lu %1023s %1023s", fn, &nb, &lo, &hi, &step, pre_h, suf_h) != 7) { printf("ERR parse\n"); return; }
    f = fn_by_name(fn);
    if (!f || nb < 1 || nb > 4 || step < 1) { printf("ERR fn\n"); return; }
    pre = hexdup(pre_h, &prel);
    suf = hexdup(suf_h, &sufl);
    for (v = lo; v < hi; v += step) {
        unsigned char x[4];
        int nul = 0, rc;
        char *s;
        for (i = 0; i < nb; i++) { x[i] = (unsigned char)(v >> (8 * (nb - 1 - i))); if (!x[i]) nul = 1; }
        if (nul) continue;
        size_t ao = align_mode() ? (size_t)((count * 5 + 1) % 16) : 0;
        char *sbase = malloc(ao + prel + (size_t)nb + sufl + 1);
        s = sbase + ao;
        memcpy(s, pre, prel); memcpy(s + prel, x, (size_t)nb); memcpy(s + prel + nb, suf, sufl);
        s[prel + nb + sufl] = 0;
        g_case = (long)v;
        rc = f(s, s + prel + nb + sufl);
        putchar((rc >= -40 && rc <= 40) ? (char)(80 + rc) : '!');
        free(sbase);
        count++;
        if ((count & 0x3fff) == 0) putchar('\n');
    }
    printf("\nEND %ld\n", count);
    free(pre); free(suf);
}
#endif

/* S <lo> <hi> <step> <add> : eav_setup for every rfc value lo+add, lo+step+add, ... <= hi+add.  Prints {"n":calls,"ok":[values accepted],
 * "rej":[[ret,errcode,message,count,first value] per distinct triple]} */
static void do_S_range(long long lo, long long hi, long long step, long long add)
{
    struct { int sr, ec; char msg[96]; long long cnt, first; } tr[16];
    int ntr = 0, i, firstok = 1;
    long long v, n = 0;
    eav_t *e = fresh_eav(0xA5);
    printf("{\"ok\":[");
    for (v = lo; v <= hi; v += step) {
        int sr;
        const char *msg;
        n++;
        eav_init(e);
        e->rfc = (EAV_RFC)(int)(v + add);
        g_stage = "eav_setup";
        sr = eav_setup(e);
        if (sr == 0) {
            printf("%s%lld", firstok ? "" : ",", v + add);
            firstok = 0;
        } else {
            g_stage = "eav_errstr";
            msg = eav_errstr(e);
            if (!msg) msg = "(null)";
            for (i = 0; i < ntr; i++)
                if (tr[i].sr == sr && tr[i].ec == e->errcode && !strncmp(tr[i].msg, msg, sizeof tr[i].msg - 1)) break;
            if (i == ntr && ntr < 16) {
                tr[ntr].sr = sr; tr[ntr].ec = e->errcode; tr[ntr].cnt = 0; tr[ntr].first = v + add;
                strncpy(tr[ntr].msg, msg, sizeof tr[ntr].msg - 1); tr[ntr].msg[sizeof tr[ntr].msg - 1] = 0;
                ntr++;
            }
            if (i < 16) tr[i].cnt++;
        }
        g_stage = "eav_free";
        eav_free(e);
    }
    printf("],\"n\":%lld,\"rej\":[", n);
    for (i = 0; i < ntr; i++) {
        printf("%s[%d,%d,", i ? "," : "", tr[i].sr, tr[i].ec);
        put_jstr(stdout, tr[i].msg);
        printf(",%lld,%lld]", tr[i].cnt, tr[i].first);
    }
    printf("]}\n");
    free(e);
}

static void do_S(char *line)
{
    long v = strtol(line + 2, NULL, 0);
    {
        long long lo, hi, step, add;
        if (sscanf(line + 2, "%lld %lld %lld %lld", &lo, &hi, &step, &add) == 4 && step > 0) { do_S_range(lo, hi, step, add); return; }
    }
    eav_t *e = fresh_eav(0xA5);
    int sr;
    const char *msg;
    eav_init(e);
    e->rfc = (EAV_RFC)(int)v;
    g_stage = "eav_setup";
    sr = eav_setup(e);
    g_stage = "eav_errstr";
    msg = eav_errstr(e);
    printf("[%d,%d,", sr, e->errcode);
    put_jstr(stdout, msg);
    printf("]\n");
    eav_free(e);
    free(e);
}

/* T : walk the exported tld_list[] until the NULL row */
static void do_T(void)
{
    const tld_t *t;
    int first = 1;
    putchar('[');
    for (t = tld_list; t->domain != NULL; t++) {
        if (!first) putchar(',');
        first = 0;
        putchar('[');
        put_hex(stdout, t->domain, strlen(t->domain));
        printf(",%lu,%d]", (unsigned long)t->length, t->type);
    }
    printf("]\n");
}

/* I : table of the IDN library's message for every code in [-400, 10] (ground truth for C15/C19) */
static void do_I(void)
{
#ifdef HAVE_LIBIDN2
    int c, first = 1;
    putchar('{');
    for (c = -400; c <= 10; c++) {
        const char *m = idn2_strerror(c);
        if (!first) putchar(',');
        first = 0;
        printf("\"%d\":", c);
        put_jstr(stdout, m);
    }
    printf("}\n");
#else
    printf("{}\n");
#endif
}

int main(void)
{
    char *line = NULL;
    size_t cap = 0;
    ssize_t r;
    static char obuf[1 << 16];
    setvbuf(stdout, obuf, _IOFBF, sizeof obuf);
    drv_install_handlers();
    /* like any application (and the eav tool): the environment chooses the locale; the Python side runs a share of the batches under
     * C.UTF-8, where <ctype.h> / <wctype.h> classifications and case mappings differ from the "C" locale */
    setlocale(LC_ALL, "");
    while ((r = getline(&line, &cap, stdin)) > 0) {
        g_case++;
        g_stage = "parse";
        if (r > 0 && line[r - 1] == '\n') line[r - 1] = 0;
        switch (line[0]) {
        case 'A': do_A(line); break;
#ifndef HAVE_IDNKIT
        case 'L': do_L(line); break;
        case 'G': do_G(line); break;
        case 'R': do_R(line); break;
        case 'K': do_K(line); break;
        case 'X': do_X(line); break;
        case 'D': do_D(line); break;
        case 'N': do_N(line); break;
        case 'U': do_U(line); break;
#endif
        case 'S': do_S(line); break;
        case 'I': do_I(); break;
        case 'T': do_T(); break;
        case 'Q': goto out;
        default: printf("null\n");
        }
    }
out:
    free(line);
    fflush(stdout);
    return 0;
}
