/* C14: multi-threaded stress runner.
 *
 *   usage: thr <threads> <iterations-per-thread> <seed> [perturb]
 *   stdin: pool of hex-encoded addresses, one per line (few strings, shared read-only by all threads)
 *
 * 1. single-threaded: the reference outcome of every (call kind, pool string, configuration) is computed;
 * 2. T threads start from a barrier; each owns one eav_t, cycles through all modes / tld_check / allow_tld values and also
 *    calls the stateless validators on the shared strings, comparing every outcome with the reference;
 *    between calls a per-thread PRNG injects sched_yield() / short sleeps;
 * 3. per-call monotonic-clock intervals are kept thread-locally (no shared atomics: they would add happens-before edges and
 *    hide races from the detector) and the number of overlapping call pairs across threads is counted after the join.
 * Output: one JSON object.  Built with -fsanitize=thread (race detector) or plain for helgrind/drd.
 */
#include "common.h"
#include <stdbool.h>
#include <pthread.h>
#include <sched.h>
#include <time.h>
#include <locale.h>
#include <sys/types.h>
#include <sys/wait.h>
#include <eav.h>
#include <eav/auto_tld.h>

#define MAXPOOL 64
#define NKIND 13
#define FREE_INIT_EVERY 37   /* every n-th iteration a thread releases and re-initialises its eav_t (cold object paths) */
static char *pool[MAXPOOL]; static size_t plen[MAXPOOL]; static int npool = 0;
static char *lp[MAXPOOL]; static size_t lplen[MAXPOOL];
static char *dm[MAXPOOL]; static size_t dmlen[MAXPOOL];
static const int allow_vals[4] = { 0, 0x2f8, 0x7fc, 0x10 };

typedef struct { int a, b, c, d; unsigned h; } out_t;

static unsigned hstr(const char *s)
{
    unsigned h = 2166136261u;
    if (!s) return 0;
    for (; *s; s++) h = (h ^ (unsigned char)*s) * 16777619u;
    return h;
}

/* kinds 0..3: eav_is_email through a per-thread eav_t in mode k (cfg = tld*4 + allow index)
 * kinds 4..7: is_<rfc>_email (cfg = tld)      kind 8: is_*_local x4      kind 9: is_ascii_domain + is_special_domain + is_tld
 * kind 10: is_utf8_domain (cfg = tld)          kind 11: is_ipaddr/is_ipv4/is_ipv6     kind 12: eav_setup with invalid rfc  */
static int ncfg(int kind) { return kind < 4 ? 8 : (kind < 8 || kind == 10) ? 2 : 1; }

static void do_call(int kind, int i, int cfg, eav_t *e, out_t *o)
{
    memset(o, 0, sizeof *o);
    if (kind < 4) {
        if ((int)e->rfc != kind || !e->ascii_cb) { /* (re)confirm the mode */ }
        e->rfc = (EAV_RFC)kind;
        e->tld_check = (cfg >> 2) & 1;
        e->allow_tld = allow_vals[cfg & 3];
        o->d = eav_setup(e);
        o->a = eav_is_email(e, pool[i], plen[i]);
        o->b = e->errcode;
        o->c = e->result ? (e->result->rc * 8 + e->result->is_ipv4 + 2 * e->result->is_ipv6 + 4 * e->result->is_domain) : -99999;
        o->h = hstr(eav_errstr(e));
    } else if (kind < 8) {
        eav_result_t *r = NULL;
        switch (kind) {
        case 4: r = is_822_email(pool[i], plen[i], cfg); break;
        case 5: r = is_5321_email(pool[i], plen[i], cfg); break;
        case 6: r = is_5322_email(pool[i], plen[i], cfg); break;
#ifndef HAVE_IDNKIT
        case 7: r = is_6531_email(pool[i], plen[i], cfg); break;
#else
        case 7: return;             /* the idnkit flavour needs the object's context: covered by kind 3 */
#endif
        }
        o->a = r->rc; o->b = r->is_ipv4 + 2 * r->is_ipv6 + 4 * r->is_domain; o->c = r->idn_rc;
        eav_result_free(r);
    } else if (kind == 8) {
        o->a = is_822_local(lp[i], lp[i] + lplen[i]); o->b = is_5321_local(lp[i], lp[i] + lplen[i]);
        o->c = is_5322_local(lp[i], lp[i] + lplen[i]); o->d = is_6531_local(lp[i], lp[i] + lplen[i]);
    } else if (kind == 9) {
        const char *dot = strrchr(dm[i], '.');
        o->a = is_ascii_domain(dm[i], dm[i] + dmlen[i]);
        o->b = dmlen[i] ? is_special_domain(dm[i], dm[i] + dmlen[i]) : -1;
        o->c = dot ? is_tld(dot + 1, dm[i] + dmlen[i]) : is_tld(dm[i], dm[i] + dmlen[i]);
    } else if (kind == 10) {
#ifndef HAVE_IDNKIT
        int r = 0;
        o->a = is_utf8_domain(&r, dm[i], dm[i] + dmlen[i], cfg);
        o->b = r;
#endif
    } else if (kind == 11) {
        o->a = is_ipaddr(dm[i], dm[i] + dmlen[i]); o->b = is_ipv4(dm[i], dm[i] + dmlen[i]); o->c = is_ipv6(dm[i], dm[i] + dmlen[i]);
    } else {
        eav_t x;
        eav_init(&x);
        x.rfc = (EAV_RFC)(77 + i);
        o->a = eav_setup(&x);
        o->h = hstr(eav_errstr(&x));
        eav_free(&x);
    }
}

static out_t *ref;          /* [kind][i][cfg] */
static size_t ref_idx(int kind, int i, int cfg) { return ((size_t)kind * MAXPOOL + (size_t)i) * 8 + (size_t)cfg; }

#define MAXIV 4000
typedef struct { long long s, e; int kind; int ov; } iv_t;
typedef struct {
    int id, iters, perturb; unsigned seed;
    long calls, mismatches; int mm_kind, mm_i, mm_cfg; out_t mm_got;
    iv_t *iv; int niv;
} targ_t;

static pthread_barrier_t bar;

static long long now_ns(void)
{
    struct timespec ts;
    clock_gettime(CLOCK_MONOTONIC, &ts);
    return (long long)ts.tv_sec * 1000000000LL + ts.tv_nsec;
}

static unsigned rnd(unsigned *s) { *s = *s * 1103515245u + 12345u; return (*s >> 16) & 0x7fff; }

static void *worker(void *p)
{
    targ_t *t = p;
    eav_t *e = malloc(sizeof *e);
    int n;
    memset(e, 0xA5, sizeof *e);
    eav_init(e);
    pthread_barrier_wait(&bar);
    for (n = 0; n < t->iters; n++) {
        int kind = (int)(rnd(&t->seed) % NKIND);
        int i = (int)(rnd(&t->seed) % (unsigned)npool);
        int cfg = (int)(rnd(&t->seed) % (unsigned)ncfg(kind));
        out_t o;
        long long s = 0;
        if (t->niv < MAXIV) s = now_ns();
        if (n % FREE_INIT_EVERY == FREE_INIT_EVERY - 1) { eav_free(e); memset(e, 0x3C, sizeof *e); eav_init(e); }
        do_call(kind, i, cfg, e, &o);
        if (t->niv < MAXIV) { t->iv[t->niv].s = s; t->iv[t->niv].e = now_ns(); t->iv[t->niv].kind = kind; t->niv++; }
        t->calls++;
        if (memcmp(&o, &ref[ref_idx(kind, i, cfg)], sizeof o) != 0) {
            if (!t->mismatches) { t->mm_kind = kind; t->mm_i = i; t->mm_cfg = cfg; t->mm_got = o; }
            t->mismatches++;
        }
        if (t->perturb) {
            unsigned r = rnd(&t->seed) % 64;
            if (r < 8) sched_yield();
            else if (r == 8) { struct timespec ts = { 0, (long)(rnd(&t->seed) % 20000) }; nanosleep(&ts, NULL); }
        }
    }
    eav_free(e);
    free(e);
    return NULL;
}

int main(int argc, char **argv)
{
    int T = argc > 1 ? atoi(argv[1]) : 4, iters = argc > 2 ? atoi(argv[2]) : 1000, perturb = argc > 4 ? atoi(argv[4]) : 1;
    unsigned seed = argc > 3 ? (unsigned)strtoul(argv[3], NULL, 0) : 1;
    char *line = NULL; size_t cap = 0; ssize_t r;
    pthread_t th[64]; targ_t ta[64];
    int k, i, c, t;
    long total = 0, mism = 0, overlap = 0, overlap_kinds[NKIND][NKIND];
    eav_t *e0;
    if (T > 64) T = 64;
    setlocale(LC_ALL, "");      /* as the eav tool does: the environment chooses (C or C.UTF-8 in this image) */
    while ((r = getline(&line, &cap, stdin)) > 0 && npool < MAXPOOL) {
        size_t n; long at = -1; size_t j;
        if (line[r - 1] == '\n') line[r - 1] = 0;
        if (!line[0]) continue;
        pool[npool] = hexdup(line, &n); plen[npool] = n;
        for (j = 0; j < n; j++) if (pool[npool][j] == '@') at = (long)j;
        if (at < 0) { lp[npool] = memdupz(pool[npool], n); lplen[npool] = n; dm[npool] = memdupz("", 0); dmlen[npool] = 0; }
        else {
            lp[npool] = memdupz(pool[npool], (size_t)at); lplen[npool] = (size_t)at;
            dm[npool] = memdupz(pool[npool] + at + 1, n - (size_t)at - 1); dmlen[npool] = n - (size_t)at - 1;
            if (dm[npool][0] == '[' && dmlen[npool] > 1 && dm[npool][dmlen[npool] - 1] == ']') {   /* bare address text */
                char *x = memdupz(dm[npool] + 1, dmlen[npool] - 2); free(dm[npool]); dm[npool] = x; dmlen[npool] -= 2;
            }
        }
        npool++;
    }
    free(line);
    if (npool == 0) { printf("{\"error\":\"empty pool\"}\n"); return 2; }
    /* 1. sequential reference, computed in a forked child so that this process stays *cold*: any lazily initialised
     *    state inside the library is first touched by the concurrently starting threads, not by the reference pass */
    ref = calloc((size_t)NKIND * MAXPOOL * 8, sizeof *ref);
    {
        int fds[2]; pid_t pid; size_t total_b = (size_t)NKIND * MAXPOOL * 8 * sizeof *ref, got = 0; int st = 0;
        if (pipe(fds) != 0) { perror("pipe"); return 2; }
        fflush(stdout);
        pid = fork();
        if (pid == 0) {
            size_t off = 0;
            close(fds[0]);
            e0 = malloc(sizeof *e0); eav_init(e0);
            for (k = 0; k < NKIND; k++) for (i = 0; i < npool; i++) for (c = 0; c < ncfg(k); c++) do_call(k, i, c, e0, &ref[ref_idx(k, i, c)]);
            /* determinism of the reference itself (a second sequential pass must agree) */
            for (k = 0; k < NKIND; k++) for (i = 0; i < npool; i++) for (c = 0; c < ncfg(k); c++) {
                out_t o; do_call(k, i, c, e0, &o);
                if (memcmp(&o, &ref[ref_idx(k, i, c)], sizeof o) != 0) _exit(3);
            }
            eav_free(e0); free(e0);
            while (off < total_b) { ssize_t w = write(fds[1], (char *)ref + off, total_b - off); if (w <= 0) _exit(4); off += (size_t)w; }
            _exit(0);
        }
        close(fds[1]);
        while (got < total_b) { ssize_t rd = read(fds[0], (char *)ref + got, total_b - got); if (rd <= 0) break; got += (size_t)rd; }
        close(fds[0]);
        waitpid(pid, &st, 0);
        if (got != total_b || !WIFEXITED(st) || WEXITSTATUS(st) != 0) {
            printf("{\"error\":\"sequential reference failed\",\"status\":%d}\n", st);
            return (WIFEXITED(st) && WEXITSTATUS(st) == 3) ? 2 : 2;
        }
    }
    /* 2. threads */
    pthread_barrier_init(&bar, NULL, (unsigned)T);
    for (t = 0; t < T; t++) {
        memset(&ta[t], 0, sizeof ta[t]);
        ta[t].id = t; ta[t].iters = iters; ta[t].perturb = perturb; ta[t].seed = seed * 7919u + (unsigned)t * 104729u + 1u;
        ta[t].iv = calloc(MAXIV, sizeof(iv_t));
        pthread_create(&th[t], NULL, worker, &ta[t]);
    }
    for (t = 0; t < T; t++) pthread_join(th[t], NULL);
    /* 3. overlap accounting */
    memset(overlap_kinds, 0, sizeof overlap_kinds);
    for (t = 0; t < T; t++) {
        int u, a, b;
        total += ta[t].calls; mism += ta[t].mismatches;
        for (u = t + 1; u < T; u++) {
            b = 0;
            for (a = 0; a < ta[t].niv; a++) {
                while (b < ta[u].niv && ta[u].iv[b].e < ta[t].iv[a].s) b++;
                { int bb = b; while (bb < ta[u].niv && ta[u].iv[bb].s <= ta[t].iv[a].e) { overlap++; ta[t].iv[a].ov = 1; ta[u].iv[bb].ov = 1; overlap_kinds[ta[t].iv[a].kind][ta[u].iv[bb].kind]++; bb++; } }
            }
        }
    }
    { long ovc = 0, timed = 0; int a; for (t = 0; t < T; t++) { timed += ta[t].niv; for (a = 0; a < ta[t].niv; a++) ovc += ta[t].iv[a].ov; }
      printf("{\"threads\":%d,\"calls\":%ld,\"mismatches\":%ld,\"overlapping_call_pairs\":%ld,\"calls_timed\":%ld,\"calls_overlapping_another_thread\":%ld,\"pool\":%d", T, total, mism, overlap, timed, ovc, npool); }
    { int dk = 0, a, b; for (a = 0; a < NKIND; a++) for (b = 0; b < NKIND; b++) if (overlap_kinds[a][b] || overlap_kinds[b][a]) dk++;
      printf(",\"distinct_overlapping_kind_pairs\":%d", dk); }
    for (t = 0; t < T; t++) if (ta[t].mismatches) {
        out_t *w = &ref[ref_idx(ta[t].mm_kind, ta[t].mm_i, ta[t].mm_cfg)];
        printf(",\"first_mismatch\":{\"thread\":%d,\"kind\":%d,\"input\":", t, ta[t].mm_kind);
        put_hex(stdout, pool[ta[t].mm_i], plen[ta[t].mm_i]);
        printf(",\"cfg\":%d,\"got\":[%d,%d,%d,%d,%u],\"sequential\":[%d,%d,%d,%d,%u]}", ta[t].mm_cfg, ta[t].mm_got.a, ta[t].mm_got.b,
               ta[t].mm_got.c, ta[t].mm_got.d, ta[t].mm_got.h, w->a, w->b, w->c, w->d, w->h);
        break;
    }
    printf("}\n");
    for (t = 0; t < T; t++) free(ta[t].iv);
    for (i = 0; i < npool; i++) { free(pool[i]); free(lp[i]); free(dm[i]); }
    free(ref);
    return mism ? 3 : 0;
}
