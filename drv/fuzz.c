/* C06 thorough: libFuzzer entry over every public entry point (clang -fsanitize=fuzzer,address,undefined). */
#include <stdint.h>
#include <stddef.h>
#include <stdlib.h>
#include <string.h>
#include <stdbool.h>
#include <eav.h>

int LLVMFuzzerTestOneInput(const uint8_t *data, size_t size);
int LLVMFuzzerTestOneInput(const uint8_t *data, size_t size)
{
    char *s;
    size_t n, i;
    int m, t;
    long at = -1;
    if (size < 1) return 0;
    n = size - 1;
    s = malloc(n + 1);
    memcpy(s, data + 1, n);
    s[n] = 0;
    n = strlen(s);                 /* the contract: length == strlen, NUL-free */
    { char *x = malloc(n + 1); memcpy(x, s, n + 1); free(s); s = x; }   /* exact-size block: red zone after the terminator */
    m = data[0] & 3; t = (data[0] >> 2) & 1;
    {
        eav_t e;
        eav_init(&e);
        e.rfc = (EAV_RFC)m; e.tld_check = t;
        if (data[0] & 8) e.allow_tld = (data[0] >> 4) << 3;
        if (eav_setup(&e) == 0) { (void)eav_is_email(&e, s, n); (void)eav_errstr(&e); (void)eav_is_email(&e, s, n); }
        eav_free(&e);
    }
    {
        eav_result_t *r = NULL;
        switch (m) { case 0: r = is_822_email(s, n, t); break; case 1: r = is_5321_email(s, n, t); break;
                     case 2: r = is_5322_email(s, n, t); break; case 3: r = is_6531_email(s, n, t); break; }
        eav_result_free(r);
    }
    for (i = 0; i < n; i++) if (s[i] == '@') at = (long)i;
    {
        const char *p = s; size_t pl = n; char *c;
        int r;
        if (at >= 0 && (data[0] & 16)) { p = s + at + 1; pl = n - (size_t)at - 1; }
        c = malloc(pl + 1); memcpy(c, p, pl); c[pl] = 0;
        (void)is_822_local(c, c + pl); (void)is_5321_local(c, c + pl); (void)is_5322_local(c, c + pl); (void)is_6531_local(c, c + pl);
        (void)is_ascii_domain(c, c + pl); (void)is_utf8_domain(&r, c, c + pl, t);
        (void)is_ipaddr(c, c + pl); (void)is_ipv4(c, c + pl); (void)is_ipv6(c, c + pl); (void)is_tld(c, c + pl);
        if (pl) (void)is_special_domain(c, c + pl);
        free(c);
    }
    free(s);
    return 0;
}
