/* C06: single-call runner for the deterministic cost clock (callgrind --toggle-collect=cost_target).
 *   usage: cost <entry> <family> <n>     builds an adversarial input of about n bytes in-process and calls the entry point once */
#include "common.h"
#include <stdbool.h>
#include <eav.h>

static char *buf; static size_t len;
static int entry_id; static long sink;

__attribute__((noinline)) void cost_target(void);
void cost_target(void)
{
    switch (entry_id) {
    case 0: case 1: case 2: case 3: {
        eav_t e; eav_init(&e); e.rfc = (EAV_RFC)entry_id; eav_setup(&e); sink += eav_is_email(&e, buf, len); eav_free(&e); } break;
    case 4: sink += is_822_local(buf, buf + len); break;
    case 5: sink += is_5321_local(buf, buf + len); break;
    case 6: sink += is_5322_local(buf, buf + len); break;
    case 7: sink += is_6531_local(buf, buf + len); break;
    case 8: sink += is_ascii_domain(buf, buf + len); break;
    case 9: { int r; sink += is_utf8_domain(&r, buf, buf + len, true); } break;
    case 10: sink += is_ipaddr(buf, buf + len); break;
    case 11: sink += is_special_domain(buf, buf + len); break;
    case 12: sink += is_tld(buf, buf + len); break;
    }
}

static void rep(const char *unit, size_t n)
{
    size_t ul = strlen(unit), i;
    buf = malloc(n + ul + 64);
    len = 0;
    for (i = 0; len + ul <= n; i++) { memcpy(buf + len, unit, ul); len += ul; }
    buf[len] = 0;
}

static void wrap(const char *pre, const char *suf)
{
    size_t pl = strlen(pre), sl = strlen(suf);
    char *b = malloc(pl + len + sl + 1);
    memcpy(b, pre, pl); memcpy(b + pl, buf, len); memcpy(b + pl + len, suf, sl);
    free(buf); buf = b; len = pl + len + sl; buf[len] = 0;
}

int main(int argc, char **argv)
{
    static const char *names[] = { "eav822", "eav5321", "eav5322", "eav6531", "l822", "l5321", "l5322", "l6531", "adom", "udom", "ipaddr",
                                   "special", "tld" };
    const char *fam; size_t n; int i;
    if (argc < 4) return 2;
    entry_id = -1;
    for (i = 0; i < 13; i++) if (!strcmp(argv[1], names[i])) entry_id = i;
    if (entry_id < 0) return 2;
    fam = argv[2]; n = (size_t)strtoul(argv[3], NULL, 0);
    if (!strcmp(fam, "dots")) rep("a.", n);
    else if (!strcmp(fam, "ats")) rep("@", n);
    else if (!strcmp(fam, "quotes")) rep("\"", n);
    else if (!strcmp(fam, "backslashes")) { rep("\\\\", n); wrap("\"", "\"@a.bc"); }
    else if (!strcmp(fam, "v4")) { rep("0.", n); wrap("x@[", "]"); }
    else if (!strcmp(fam, "colons")) { rep(":", n); wrap("x@[IPv6:", "]"); }
    else if (!strcmp(fam, "v6groups")) { rep("1:", n); wrap("x@[", "]"); }
    else if (!strcmp(fam, "longlabel")) { rep("a", n); wrap("x@", ".com"); }
    else if (!strcmp(fam, "labels")) { rep("ab.", n); wrap("x@", "com"); }
    else if (!strcmp(fam, "utf8")) { rep("\xd0\xb0", n); wrap("", "@a.bc"); }
    else if (!strcmp(fam, "utf8dom")) { rep("\xd0\xb0.", n); wrap("x@", "\xd1\x80\xd1\x84"); }
    else if (!strcmp(fam, "crlf")) { rep("\r\n ", n); wrap("\"", "\"@a.bc"); }
    else if (!strcmp(fam, "qwords")) { rep("\"a\".", n); wrap("", "b@a.bc"); }
    else if (!strcmp(fam, "brackets")) { rep("]", n); wrap("x@[", ""); }
    else if (!strcmp(fam, "hyphens")) { rep("a-", n); wrap("x@", "a.com"); }
    else if (!strcmp(fam, "labels-reserved")) { rep("a.", n); wrap("x@", "example.com"); }
    else if (!strcmp(fam, "local-literal")) { rep("a", n); wrap("", "@[IPv6:1:2:3:4:5:6:7:8]"); }
    else if (!strcmp(fam, "open-brackets")) { rep("[", n); wrap("x@", "1.2.3.4]"); }
    else if (!strcmp(fam, "zeros-literal")) { rep("0", n); wrap("x@[", "1.2.3.4]"); }
    else if (!strcmp(fam, "escaped-quotes")) { rep("\\\"", n); wrap("\"", "\"@a.bc"); }
    else if (!strcmp(fam, "dots-then-error")) { rep("a.", n); wrap("", ".@a.bc"); }
    else if (!strcmp(fam, "spaces")) { rep(" ", n); wrap("\"", "\"@a.bc"); }
    else return 2;
    cost_target();
    printf("%ld %lu\n", sink, (unsigned long)len);
    free(buf);
    return 0;
}
