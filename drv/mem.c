/* C06: hostile-placement runner (no sanitizer needed; also works under one).
 *
 * Every input is placed in a private mapping twice:
 *   tail placement: the terminator is the last byte before a PROT_NONE page   (catches over-reads past the terminator)
 *   head placement: the first byte is the first byte after a PROT_NONE page   (catches under-reads such as cp[-1])
 * and the pages holding the string are made PROT_READ before the library is called (any write into the caller's string faults).
 * A SIGSEGV/SIGBUS handler turns a fault into a witness record instead of killing the process.
 * stdin: one hex string per line.  stdout: one JSON record per line: {"faults":[[placement,stage,addr-offset],...],"obs":[...]}
 */
#include "common.h"
#include <stdbool.h>
#include <setjmp.h>
#include <sys/mman.h>
#include <eav.h>
#include <eav/auto_tld.h>

static sigjmp_buf jb;
static volatile int in_call = 0;
static void *volatile fault_addr;

static void on_fault(int sig, siginfo_t *si, void *ctx)
{
    (void)ctx;
    if (in_call) { fault_addr = si->si_addr; siglongjmp(jb, sig); }
    signal(sig, SIG_DFL);
    raise(sig);
}

typedef struct { char *map; size_t maplen; char *s; size_t n; } gbuf_t;
static long pagesz;

static gbuf_t gb_make(const char *src, size_t n, int head)
{
    gbuf_t g;
    size_t data = ((n + 1 + (size_t)pagesz - 1) / (size_t)pagesz) * (size_t)pagesz;
    g.maplen = data + 2 * (size_t)pagesz;
    g.map = mmap(NULL, g.maplen, PROT_READ | PROT_WRITE, MAP_PRIVATE | MAP_ANONYMOUS, -1, 0);
    if (g.map == MAP_FAILED) { perror("mmap"); exit(2); }
    memset(g.map, 'Z', g.maplen);
    g.s = head ? g.map + pagesz : g.map + pagesz + data - (n + 1);
    memcpy(g.s, src, n);
    g.s[n] = 0;
    g.n = n;
    mprotect(g.map, (size_t)pagesz, PROT_NONE);
    mprotect(g.map + pagesz + data, (size_t)pagesz, PROT_NONE);
    mprotect(g.map + pagesz, data, PROT_READ);
    return g;
}
static void gb_free(gbuf_t *g) { munmap(g->map, g->maplen); }

static int nfaults;
#define GUARD(stage_name, placement, g, stmt) do { \
    int sg_; g_stage = stage_name; in_call = 1; \
    if ((sg_ = sigsetjmp(jb, 1)) == 0) { stmt; in_call = 0; } \
    else { in_call = 0; printf("%s[\"%s\",\"%s\",%ld,%d]", nfaults++ ? "," : "", placement, stage_name, \
           (long)((char *)fault_addr - (g).s), sg_); } \
} while (0)

static long obs_sum;   /* keeps results alive */

static void run_all(const char *pl, gbuf_t *A, gbuf_t *L, gbuf_t *D, gbuf_t *I, int have_parts)
{
    int m, t;
    for (m = 0; m < 4; m++) for (t = 0; t < 2; t++) {
        eav_t e; int ok = 0;
        GUARD("eav_is_email", pl, *A, { eav_init(&e); e.rfc = (EAV_RFC)m; e.tld_check = t; ok = (eav_setup(&e) == 0);
              if (ok) { obs_sum += eav_is_email(&e, A->s, A->n); obs_sum += (long)strlen(eav_errstr(&e)); } eav_free(&e); });
        GUARD("is_X_email", pl, *A, { eav_result_t *r = NULL;
              switch (m) { case 0: r = is_822_email(A->s, A->n, t); break; case 1: r = is_5321_email(A->s, A->n, t); break;
                           case 2: r = is_5322_email(A->s, A->n, t); break; case 3: r = is_6531_email(A->s, A->n, t); break; }
              obs_sum += r->rc; eav_result_free(r); });
    }
    /* the whole string through every per-part validator */
    GUARD("is_822_local", pl, *A, obs_sum += is_822_local(A->s, A->s + A->n));
    GUARD("is_5321_local", pl, *A, obs_sum += is_5321_local(A->s, A->s + A->n));
    GUARD("is_5322_local", pl, *A, obs_sum += is_5322_local(A->s, A->s + A->n));
    GUARD("is_6531_local", pl, *A, obs_sum += is_6531_local(A->s, A->s + A->n));
    GUARD("is_ascii_domain", pl, *A, obs_sum += is_ascii_domain(A->s, A->s + A->n));
    GUARD("is_utf8_domain", pl, *A, { int r; obs_sum += is_utf8_domain(&r, A->s, A->s + A->n, true); });
    GUARD("is_ipaddr", pl, *A, obs_sum += is_ipaddr(A->s, A->s + A->n));
    GUARD("is_ipv4", pl, *A, obs_sum += is_ipv4(A->s, A->s + A->n));
    GUARD("is_ipv6", pl, *A, obs_sum += is_ipv6(A->s, A->s + A->n));
    GUARD("is_tld", pl, *A, obs_sum += is_tld(A->s, A->s + A->n));
    if (A->n) GUARD("is_special_domain", pl, *A, obs_sum += is_special_domain(A->s, A->s + A->n));
    if (!have_parts) return;
    GUARD("L:is_822_local", pl, *L, obs_sum += is_822_local(L->s, L->s + L->n));
    GUARD("L:is_5321_local", pl, *L, obs_sum += is_5321_local(L->s, L->s + L->n));
    GUARD("L:is_5322_local", pl, *L, obs_sum += is_5322_local(L->s, L->s + L->n));
    GUARD("L:is_6531_local", pl, *L, obs_sum += is_6531_local(L->s, L->s + L->n));
    GUARD("D:is_ascii_domain", pl, *D, obs_sum += is_ascii_domain(D->s, D->s + D->n));
    GUARD("D:is_utf8_domain", pl, *D, { int r; obs_sum += is_utf8_domain(&r, D->s, D->s + D->n, true); obs_sum += is_utf8_domain(&r, D->s, D->s + D->n, false); });
    if (D->n) GUARD("D:is_special_domain", pl, *D, obs_sum += is_special_domain(D->s, D->s + D->n));
    GUARD("D:is_tld", pl, *D, { const char *dot = strrchr(D->s, '.'); obs_sum += is_tld(dot ? dot + 1 : D->s, D->s + D->n); });
    GUARD("I:is_ipaddr", pl, *I, obs_sum += is_ipaddr(I->s, I->s + I->n));
    GUARD("I:is_ipv4", pl, *I, obs_sum += is_ipv4(I->s, I->s + I->n));
    GUARD("I:is_ipv6", pl, *I, obs_sum += is_ipv6(I->s, I->s + I->n));
}

static unsigned n_alarm = 120;

int main(void)
{
    char *line = NULL; size_t cap = 0; ssize_t r;
    struct sigaction sa;
    static char obuf[1 << 16];
    setvbuf(stdout, obuf, _IOFBF, sizeof obuf);
    pagesz = sysconf(_SC_PAGESIZE);
    memset(&sa, 0, sizeof sa);
    sa.sa_sigaction = on_fault; sa.sa_flags = SA_SIGINFO | SA_NODEFER;
    sigaction(SIGSEGV, &sa, NULL); sigaction(SIGBUS, &sa, NULL);
    signal(SIGABRT, drv_on_signal);
    signal(SIGALRM, drv_on_signal);
    while ((r = getline(&line, &cap, stdin)) > 0) {
        size_t n; char *s; long at = -1; size_t j; int head;
        if (line[r - 1] == '\n') line[r - 1] = 0;
        if (line[0] == 'Q') break;
        g_case++;
        /* this build is uninstrumented: a smashed stack can turn into an endless loop; one case takes milliseconds (9 MiB: seconds) */
        alarm(n_alarm);
        s = hexdup(line, &n);
        for (j = 0; j < n; j++) if (s[j] == '@') at = (long)j;
        nfaults = 0;
        printf("{\"faults\":[");
        for (head = 0; head < 2; head++) {
            gbuf_t A = gb_make(s, n, head), L, D, I;
            int have = at >= 0;
            if (have) {
                const char *d = s + at + 1; size_t dl = n - (size_t)at - 1;
                L = gb_make(s, (size_t)at, head);
                D = gb_make(d, dl, head);
                if (dl >= 2 && d[0] == '[' && d[dl - 1] == ']') I = gb_make(d + 1, dl - 2, head); else I = gb_make(d, dl, head);
            }
            run_all(head ? "head" : "tail", &A, &L, &D, &I, have);
            gb_free(&A);
            if (have) { gb_free(&L); gb_free(&D); gb_free(&I); }
        }
        printf("],\"sum\":%ld}\n", obs_sum);
        free(s);
    }
    free(line);
    return 0;
}
