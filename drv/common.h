/* Shared helpers for the verification drivers (not part of libeav). */
#ifndef VERIF_COMMON_H
#define VERIF_COMMON_H
#include <stdio.h>
#include <stdlib.h>
#include <string.h>
#include <signal.h>
#include <unistd.h>
#include <stdint.h>
#include <sys/mman.h>

static volatile long g_case = -1;      /* index of the case being executed (for crash attribution) */
static const char *volatile g_stage = "";

static void drv_on_signal(int sig)
{
    char buf[160];
    int n;
    fflush(stdout);
    n = snprintf(buf, sizeof buf, "\nDRV-ABORT case=%ld stage=%s sig=%d\n", g_case, g_stage, sig);
    if (n > 0) { ssize_t w = write(2, buf, (size_t)n); (void)w; }
    signal(sig, SIG_DFL);
    raise(sig);
}

/* Called by the ASan runtime before it prints a report. */
void __asan_on_error(void);
void __asan_on_error(void)
{
    char buf[160];
    int n;
    fflush(stdout);
    n = snprintf(buf, sizeof buf, "\nDRV-ASAN case=%ld stage=%s\n", g_case, g_stage);
    if (n > 0) { ssize_t w = write(2, buf, (size_t)n); (void)w; }
}

static void drv_install_handlers(void)
{
    signal(SIGABRT, drv_on_signal);
    signal(SIGALRM, drv_on_signal);
#if !defined(__SANITIZE_ADDRESS__)
    signal(SIGSEGV, drv_on_signal);
    signal(SIGBUS, drv_on_signal);
#endif
}

static int hexval(int c)
{
    if (c >= '0' && c <= '9') return c - '0';
    if (c >= 'a' && c <= 'f') return c - 'a' + 10;
    if (c >= 'A' && c <= 'F') return c - 'A' + 10;
    return -1;
}

/* VERIF_ALIGN=1: decoded inputs are placed at offsets 0..15 from the allocator's alignment (the terminator still ends the block,
 * so the red zone after it stays adjacent); hexfree() releases them. */
static size_t g_align_ctr = 0;
/* VERIF_ALIGN=2: decoded inputs live in read-only pages, the terminator is the last byte before an inaccessible page (the input is
 * `const char *`: a validator that patches it temporarily, or reads past the terminator, faults here). */
static int align_mode(void)
{
    static int m = -1;
    if (m < 0) { const char *e = getenv("VERIF_ALIGN"); m = e ? (e[0] == '2' ? 2 : 1) : 0; }
    return m;
}
#define HEXDUP_SLOTS 8
static char *hexdup_ret[HEXDUP_SLOTS], *hexdup_base[HEXDUP_SLOTS];
static size_t hexdup_map[HEXDUP_SLOTS];
static void hexfree(char *p)
{
    int i;
    for (i = 0; i < HEXDUP_SLOTS; i++)
        if (p && hexdup_ret[i] == p) {
            if (hexdup_map[i]) munmap(hexdup_base[i], hexdup_map[i]); else free(hexdup_base[i]);
            hexdup_ret[i] = NULL; hexdup_map[i] = 0;
            return;
        }
    free(p);
}

/* Decode hex into an exactly sized malloc block (len+1, NUL terminated) so that sanitizer
 * red zones sit directly before the first byte and after the terminator.  "-" is the empty string. */
static char *hexdup(const char *hex, size_t *outlen)
{
    size_t n, i;
    char *p;
    if (hex[0] == '-' && (hex[1] == 0 || hex[1] == '\n' || hex[1] == ' ')) {
        p = malloc(1); p[0] = 0; *outlen = 0; return p;
    }
    n = 0;
    while (hexval((unsigned char)hex[n]) >= 0) n++;
    n /= 2;
    p = malloc(n + 1);
    for (i = 0; i < n; i++)
        p[i] = (char)((hexval((unsigned char)hex[2*i]) << 4) | hexval((unsigned char)hex[2*i+1]));
    p[n] = 0;
    *outlen = n;
    return p;
}

/* Input strings handed to the library: like hexdup, but under VERIF_ALIGN=1 at offsets 0..15 from the allocator's alignment.
 * Release with hexfree(). */
static char *hexdup_in(const char *hex, size_t *outlen)
{
    char *p = hexdup(hex, outlen), *base;
    size_t o;
    int k;
    if (!align_mode()) return p;
    for (k = 0; k < HEXDUP_SLOTS; k++) if (!hexdup_ret[k]) break;
    if (k == HEXDUP_SLOTS) k = 0;
    if (align_mode() == 2) {
        size_t pg = (size_t)sysconf(_SC_PAGESIZE), data = ((*outlen + 1 + pg - 1) / pg) * pg, total = data + pg;
        base = mmap(NULL, total, PROT_READ | PROT_WRITE, MAP_PRIVATE | MAP_ANONYMOUS, -1, 0);
        if (base == MAP_FAILED) return p;
        o = data - (*outlen + 1);
        memcpy(base + o, p, *outlen + 1);
        free(p);
        mprotect(base, data, PROT_READ);
        mprotect(base + data, pg, PROT_NONE);
        hexdup_ret[k] = base + o; hexdup_base[k] = base; hexdup_map[k] = total;
        return base + o;
    }
    o = (g_align_ctr++ * 7 + 3) % 16;
    base = malloc(o + *outlen + 1);
    memcpy(base + o, p, *outlen + 1);
    free(p);
    hexdup_ret[k] = base + o; hexdup_base[k] = base; hexdup_map[k] = 0;
    return base + o;
}

static char *memdupz(const char *s, size_t n)
{
    char *p = malloc(n + 1);
    memcpy(p, s, n);
    p[n] = 0;
    return p;
}

static void put_hex(FILE *f, const char *s, size_t n)
{
    static const char d[] = "0123456789abcdef";
    size_t i;
    fputc('"', f);
    for (i = 0; i < n; i++) {
        fputc(d[((unsigned char)s[i]) >> 4], f);
        fputc(d[((unsigned char)s[i]) & 15], f);
    }
    fputc('"', f);
}

static void put_jstr(FILE *f, const char *s)
{
    if (s == NULL) { fputs("null", f); return; }
    fputc('"', f);
    for (; *s; s++) {
        unsigned char c = (unsigned char)*s;
        if (c == '"' || c == '\\') { fputc('\\', f); fputc(c, f); }
        else if (c < 0x20 || c >= 0x7f) fprintf(f, "\\u%04x", c);
        else fputc(c, f);
    }
    fputc('"', f);
}

#endif
