/* C08: allow_tld / tld_check policy enumeration through the public eav_t.
 *
 *   C <rc>            caller-installed callback returning result code <rc> (flags as a host name):
 *                     for mode 0..3, tld 0..1, mask 0..2047 (bits 0-10): prints "ret errcode" packed as 3 chars
 *   R <hex>           a real address: same enumeration
 *   Z <poison>        eav_init on memory filled with <poison>: prints rfc tld_check allow_tld errcode result==NULL
 */
#include "common.h"
#include <stdbool.h>
#include <eav.h>
#include <eav/auto_tld.h>

static int g_rc;

static eav_result_t *mk(void)
{
    eav_result_t *r = calloc(1, sizeof *r);
    r->rc = g_rc;
    r->is_domain = (g_rc >= 0);
    return r;
}

static eav_result_t *fake_ascii(const char *e, size_t n, bool t) { (void)e; (void)n; (void)t; return mk(); }
#ifdef HAVE_IDNKIT
static eav_result_t *fake_utf8(idn_resconf_t c, idn_action_t a, const char *e, size_t n, bool t)
{ (void)c; (void)a; (void)e; (void)n; (void)t; return mk(); }
#else
static eav_result_t *fake_utf8(const char *e, size_t n, bool t) { (void)e; (void)n; (void)t; return mk(); }
#endif

static void sweep(const char *addr, size_t n, int fake)
{
    int m, t, mask;
    for (m = 0; m < 4; m++) for (t = 0; t < 2; t++) {
        eav_t *e = malloc(sizeof *e);
        memset(e, 0xA5, sizeof *e);
        eav_init(e);
        e->rfc = (EAV_RFC)m;
        e->tld_check = t ? true : false;
        if (eav_setup(e) != 0) { printf("SETUPFAIL\n"); eav_free(e); free(e); continue; }
        if (fake) { e->ascii_cb = fake_ascii; e->utf8_cb = fake_utf8; }
        for (mask = 0; mask < 2048; mask++) {
            int ret;
            e->allow_tld = mask;
            g_case = mask;
            ret = eav_is_email(e, addr, n);
            /* ret in {0,1}; errcode 0..63 */
            putchar('0' + (ret & 7));
            putchar('0' + ((e->errcode >> 4) & 15));
            putchar('A' + (e->errcode & 15));
        }
        putchar('\n');
        eav_free(e);
        free(e);
    }
}

int main(void)
{
    char *line = NULL; size_t cap = 0; ssize_t r;
    static char obuf[1 << 16];
    setvbuf(stdout, obuf, _IOFBF, sizeof obuf);
    drv_install_handlers();
    while ((r = getline(&line, &cap, stdin)) > 0) {
        if (line[r - 1] == '\n') line[r - 1] = 0;
        if (line[0] == 'C') {
            g_rc = (int)strtol(line + 2, NULL, 0);
            g_stage = "policy-callback";
            sweep("x@y.zz", 6, 1);
            printf("END\n");
        } else if (line[0] == 'R') {
            size_t n; char *s = hexdup(line + 2, &n);
            g_stage = "policy-real";
            sweep(s, n, 0);
            printf("END\n");
            free(s);
        } else if (line[0] == 'M') {
            /* M <rc>: callback result code with allow_tld = 0: prints ret, errcode and the message for every mode */
            int m;
            g_rc = (int)strtol(line + 2, NULL, 0);
            g_stage = "policy-message";
            putchar('[');
            for (m = 0; m < 4; m++) {
                eav_t *e = malloc(sizeof *e);
                int ret;
                memset(e, 0xA5, sizeof *e);
                eav_init(e);
                e->rfc = (EAV_RFC)m;
                if (eav_setup(e) == 0) {
                    e->ascii_cb = fake_ascii; e->utf8_cb = fake_utf8;
                    e->allow_tld = 0;
                    ret = eav_is_email(e, "x@y.zz", 6);
                    printf("%s[%d,%d,", m ? "," : "", ret, e->errcode);
                    put_jstr(stdout, eav_errstr(e));
                    putchar(']');
                }
                eav_free(e);
                free(e);
            }
            printf("]\nEND\n");
        } else if (line[0] == 'Z') {
            int p = (int)strtol(line + 2, NULL, 0);
            eav_t *e = malloc(sizeof *e);
            memset(e, p, sizeof *e);
            eav_init(e);
            printf("%d %d %d %d %d\nEND\n", (int)e->rfc, (int)e->tld_check, e->allow_tld, e->errcode, e->result == NULL);
            free(e);
        } else if (line[0] == 'Q') break;
    }
    free(line);
    return 0;
}
