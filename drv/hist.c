/* Call-history runner (C13, C18, C19).
 *
 *   P <hex>                       append an address to the pool
 *   W                             warm-up: validate every pool address in every mode once (absorbs one-time caches)
 *   H <op> <op> ...               run one history on ONE eav_t living in fresh heap memory and print its trace
 *       r<int>   rfc := int            s        eav_setup
 *       t0|t1    tld_check := 0|1      a<hex>   allow_tld := value      ad  allow_tld := eav_init default
 *       e<idx>   eav_is_email(pool[idx])  (skipped unless a mode is confirmed)
 *       m        eav_errstr re-read    f        eav_free + eav_init
 *       F<k>:<code>:<buf>   (wrap build only) plan a fault: the k-th IDN conversion from now returns <code>,
 *                           with (buf=1) or without (buf=0) a live output buffer
 *   at the end of the history: eav_free, ledger report.
 *
 * Online monitors inside the driver: allocation ledger (sanitizer malloc/free hooks; only allocations made while a
 * library call is in progress are attributed), fresh-object differential (a new eav_t with the model's settings validates
 * the same address right after every eav_is_email), IDN-context ledger (adapter builds, see shim/idn).
 */
#include "common.h"
#include <errno.h>
#include <stdbool.h>
#include <eav.h>
#include <eav/auto_tld.h>
#ifdef HAVE_LIBIDN2
#include <idn2.h>
#endif

#ifdef HAVE_IDNKIT
#define IDN_RC_INT(x) ((int)(x))
#else
#define IDN_RC_INT(x) (x)
#endif

/* ---------------------------------------------------------------- allocation ledger */
#define LEDGER_SLOTS (1 << 16)
static const volatile void *led_ptr[LEDGER_SLOTS];
static volatile int led_in_lib = 0;
static long led_live = 0, led_mallocs = 0, led_frees = 0, led_foreign_frees = 0;

static size_t led_hash(const volatile void *p) { return (size_t)(((uintptr_t)p >> 4) * 2654435761u) & (LEDGER_SLOTS - 1); }

static void led_on_malloc(const volatile void *p, size_t n)
{
    size_t h, i;
    (void)n;
    if (!led_in_lib || p == NULL) return;
    h = led_hash(p);
    for (i = 0; i < LEDGER_SLOTS; i++) {
        size_t s = (h + i) & (LEDGER_SLOTS - 1);
        if (led_ptr[s] == NULL || led_ptr[s] == (void *)1) { led_ptr[s] = p; led_live++; led_mallocs++; return; }
    }
}

static void led_on_free(const volatile void *p)
{
    size_t h, i;
    if (p == NULL) return;
    h = led_hash(p);
    for (i = 0; i < LEDGER_SLOTS; i++) {
        size_t s = (h + i) & (LEDGER_SLOTS - 1);
        if (led_ptr[s] == NULL) break;
        if (led_ptr[s] == p) { led_ptr[s] = (void *)1; led_live--; led_frees++; return; }
    }
    if (led_in_lib) led_foreign_frees++;
}

#if defined(__SANITIZE_ADDRESS__)
int __sanitizer_install_malloc_and_free_hooks(void (*malloc_hook)(const volatile void *, size_t),
                                              void (*free_hook)(const volatile void *));
static int led_available = 1;
#else
static int led_available = 0;
#endif

/* errno holds a stale non-zero value when the library is entered (a caller's earlier failure): a library that tests errno without
 * clearing it first, or reports it, misbehaves */
#define LIB(call) do { errno = (g_case & 1) ? ERANGE : ENOMEM; led_in_lib = 1; call; led_in_lib = 0; } while (0)

/* ---------------------------------------------------------------- fault injection (C19) */
#ifdef VERIF_WRAP_IDN2
int __real_idn2_to_ascii_8z(const char *input, char **output, int flags);
static long fault_countdown = -1;    /* conversions until the planned fault fires (-1: none) */
static int fault_code = 0, fault_buf = 0;
static int fault_fired_code = 0, fault_fired = 0;
static long wrap_calls = 0, wrap_injected = 0;
static int in_fresh = 0;

int __wrap_idn2_to_ascii_8z(const char *input, char **output, int flags);
int __wrap_idn2_to_ascii_8z(const char *input, char **output, int flags)
{
    if (!in_fresh) {
        wrap_calls++;
        if (fault_countdown > 0 && --fault_countdown == 0) {
            fault_countdown = -1;
            fault_fired = 1;
            fault_fired_code = fault_code;
            wrap_injected++;
            {   /* a failing conversion usually leaves an errno behind; which one says nothing about the conversion */
                static const int ev[] = { ENOMEM, EILSEQ, EINTR, EAGAIN, EINVAL, 0 };
                errno = ev[wrap_injected % 6];
            }
            if (fault_buf && output) {
                char *p = malloc(32);
                strcpy(p, "leftover.buffer");
                *output = p;
            }
            return fault_code;
        }
    }
    return __real_idn2_to_ascii_8z(input, output, flags);
}
#endif

/* ---------------------------------------------------------------- adapter ledger (C18) */
#ifdef VERIF_IDN_ADAPTER
extern long verif_idn_creates, verif_idn_destroys, verif_idn_live, verif_idn_bad_use, verif_idn_double_destroy,
            verif_idn_encodes, verif_idn_bad_actions, verif_idn_create_failures;
void verif_idn_plan_create_failure(long k);
extern long verif_idn_fail_create_countdown;
#endif

/* VERIF_POISON=none leaves fresh eav_t memory uninitialised (memcheck definedness tracking) */
static void poison(void *p, int byte, size_t n)
{
    static int mode = -2;
    if (mode == -2) { const char *v = getenv("VERIF_POISON"); mode = (v && !strcmp(v, "none")) ? 1 : 0; }
    if (!mode) memset(p, byte, n);
}

/* ---------------------------------------------------------------- pool */
static char **pool = NULL; static size_t *pool_len = NULL; static int pool_n = 0;

static void put_obs(eav_t *e, int ret)
{
    const char *msg;
    const eav_result_t *r = e->result;
    g_stage = "eav_errstr";
    msg = eav_errstr(e);
    printf("[%d,%d,", ret, e->errcode);
    put_jstr(stdout, msg);
    if (r) {
        printf(",%d,%d,%d,%d,%d", (int)r->is_ipv4, (int)r->is_ipv6, (int)r->is_domain, r->rc, IDN_RC_INT(r->idn_rc));
#ifdef EAV_EXTRA
        putchar(',');
        if (r->lpart) put_hex(stdout, r->lpart, strlen(r->lpart)); else printf("null");
        putchar(',');
        if (r->domain) put_hex(stdout, r->domain, strlen(r->domain)); else printf("null");
#endif
    } else printf(",null");
    putchar(']');
}

static int expected_blocks(const eav_t *e)
{
    int n = 0;
    if (e->result) {
        n = 1;
#ifdef EAV_EXTRA
        if (e->result->lpart) n++;
        if (e->result->domain) n++;
#endif
    }
    return n;
}

/* Two long-lived *decoy* objects with settings unlike the history's (A: mode 822, tld off; B: mode 5322, tld on, allow_tld = 0) exist
 * next to the object under test and validate a fixed address before each of its validations: their outcomes must never change (state
 * leaking from one object into another), whatever is done to the object under test.  ASCII modes only: no IDN conversion, no back-end
 * context, so fault plans and adapter ledgers are not disturbed. */
#define NDECOY 3
static eav_t *decoy[NDECOY];
static int decoy_base[NDECOY][3];
static unsigned decoy_msg[NDECOY];
/* C: mode 6531, an address that fails inside the IDN conversion with a code of its own (joiner without context): its message is read
 * again *after* other objects have failed with other codes - a message buffer shared between objects shows */
static const char *decoy_addr[NDECOY] = { "\"a\tb\"@x.zzzz", "user@mail.ru", "u@a\xe2\x80\x8d" "b.com" };
static const char *decoy_held = NULL;  /* what eav_errstr returned for decoy C after its last validation */
static int decoy_c_validated = 0;      /* decoy C has validated since its last set-up to mode 6531 */

static unsigned dh(const char *s) { unsigned h = 2166136261u; if (!s) return 0; for (; *s; s++) h = (h ^ (unsigned char)*s) * 16777619u; return h; }

static void decoys_check(const char *when)
{
    int k;
#ifdef VERIF_WRAP_IDN2
    int saved_fresh = in_fresh;
#endif
#ifdef VERIF_IDN_ADAPTER
    long saved_cd = verif_idn_fail_create_countdown;
#endif
    if (getenv("VERIF_NO_DECOY")) return;
#ifdef VERIF_WRAP_IDN2
    in_fresh = 1;                        /* the decoys are exempt from the fault plan, like the fresh reference object */
#endif
#ifdef VERIF_IDN_ADAPTER
    verif_idn_fail_create_countdown = 0;
#endif
    for (k = 0; k < NDECOY; k++) {
        int ret, fresh = 0;
        if (!decoy[k]) {
            decoy[k] = malloc(sizeof *decoy[k]);
            eav_init(decoy[k]);
            decoy[k]->rfc = k == 2 ? EAV_RFC_6531 : k ? EAV_RFC_5322 : EAV_RFC_822;
            decoy[k]->tld_check = k ? true : false;
            if (k == 1) decoy[k]->allow_tld = 0;
            if (eav_setup(decoy[k]) != 0) { fprintf(stderr, "\nDRV-DECOY set-up failed\n"); exit(71); }
            fresh = 1;
        }
        else if (k == 2 && decoy_c_validated && decoy_held && dh(decoy_held) != decoy_msg[k]) {
            /* the text behind the pointer eav_errstr returned for this object earlier (the object has not been touched since) */
            fflush(stdout);
            fprintf(stderr, "\nDRV-DECOY object-interference: the message obtained from a second object (mode 6531, %s) was overwritten %s: now '%s'\n",
                    decoy_addr[k], when, decoy_held);
            _exit(72);
        }
        else if (k == 2 && decoy_c_validated && dh(eav_errstr(decoy[k])) != decoy_msg[k]) {
            fflush(stdout);
            fprintf(stderr, "\nDRV-DECOY object-interference: the message of a second object's last validation (mode 6531, %s) changed %s: now '%s'\n",
                    decoy_addr[k], when, eav_errstr(decoy[k]));
            _exit(72);
        }
        else if ((decoy[k]->rfc = (k == 2 ? EAV_RFC_6531 : k ? EAV_RFC_5322 : EAV_RFC_822), eav_setup(decoy[k])) != 0) {       /* confirming the same mode again is always allowed; it also puts another object's
                                                     * set-up between any two operations on the object under test */
            fprintf(stderr, "\nDRV-DECOY object-interference: re-confirming the mode of a second object failed %s\n", when);
            _exit(72);
        }
        ret = eav_is_email(decoy[k], decoy_addr[k], strlen(decoy_addr[k]));
        if (fresh) {
            decoy_base[k][0] = ret; decoy_base[k][1] = decoy[k]->errcode; decoy_base[k][2] = decoy[k]->result ? decoy[k]->result->rc : -9999;
            decoy_msg[k] = dh(eav_errstr(decoy[k]));
        } else if (ret != decoy_base[k][0] || decoy[k]->errcode != decoy_base[k][1] ||
                   (decoy[k]->result ? decoy[k]->result->rc : -9999) != decoy_base[k][2] || dh(eav_errstr(decoy[k])) != decoy_msg[k]) {
            fflush(stdout);
            fprintf(stderr, "\nDRV-DECOY object-interference: a second, untouched object (mode %s) changed its outcome for %s %s: ret %d->%d errcode %d->%d rc %d->%d message '%s'\n",
                    k ? "5322 tld-on allow=0" : "822 tld-off", decoy_addr[k], when, decoy_base[k][0], ret, decoy_base[k][1], decoy[k]->errcode,
                    decoy_base[k][2], decoy[k]->result ? decoy[k]->result->rc : -9999, eav_errstr(decoy[k]));
            _exit(72);
        }
        if (k == 2) { decoy_c_validated = 1; decoy_held = eav_errstr(decoy[k]); }
    }
#ifdef VERIF_WRAP_IDN2
    in_fresh = saved_fresh;
#endif
#ifdef VERIF_IDN_ADAPTER
    verif_idn_fail_create_countdown = saved_cd;
#endif
}

/* at the end of a history decoy C leaves mode 6531 (its back-end context, if the back end has one, is released: the adapter's ledger
 * of contexts is read in the end record) */
static void decoys_park(void)
{
    if (decoy[2]) {
#ifdef VERIF_IDN_ADAPTER
        long saved_cd = verif_idn_fail_create_countdown;
        verif_idn_fail_create_countdown = 0;
#endif
        decoy[2]->rfc = EAV_RFC_822;
        (void)eav_setup(decoy[2]);
        decoy_c_validated = 0;
        decoy_held = NULL;
#ifdef VERIF_IDN_ADAPTER
        verif_idn_fail_create_countdown = saved_cd;
#endif
    }
}

/* 'k': the caller installs callbacks of its own in the public fields (they validate a fixed other address); the next successful
 * eav_setup has to wire the confirmed mode's validators again */
static eav_result_t *caller_cb(const char *email, size_t length, bool tld)
{
    (void)email; (void)length;
    return is_822_email("callback@[1.2.3.4]", 18, tld);
}

static void run_history(char *line)
{
    eav_t *e = malloc(sizeof *e);
    char *tok, *save = NULL;
    int confirmed = -1, first = 1, default_allow;
    long base_live;
#ifdef VERIF_IDN_ADAPTER
    long base_cf = verif_idn_create_failures;
    verif_idn_plan_create_failure(0);
#endif
    decoys_check("before the history");
    poison(e, 0xA5, sizeof *e);
    g_stage = "eav_init";
    LIB(eav_init(e));
    default_allow = e->allow_tld;
    base_live = led_live;
    putchar('[');
    for (tok = strtok_r(line + 2, " ", &save); tok; tok = strtok_r(NULL, " ", &save)) {
        if (!first) putchar(',');
        first = 0;
        switch (tok[0]) {
        case 'r': e->rfc = (EAV_RFC)(int)strtol(tok + 1, NULL, 0); printf("[\"r\"]"); break;
        case 't': e->tld_check = tok[1] == '1'; printf("[\"t\"]"); break;
        case 'a': e->allow_tld = tok[1] == 'd' ? default_allow : (int)strtol(tok + 1, NULL, 16); printf("[\"a\"]"); break;
        case 's': {
            int rfc = (int)e->rfc, sr;
            g_stage = "decoy";
            decoys_check("right before another object's set-up");
            g_stage = "eav_setup";
            LIB(sr = eav_setup(e));
            if (rfc >= 0 && rfc <= 3 && sr == 0) confirmed = rfc;
            else if (rfc >= 0 && rfc <= 3) confirmed = -1;   /* a defined mode could not be set up (back-end failure): unusable until the next successful setup */
            printf("[\"s\",%d,%d,", rfc, sr);
            g_stage = "eav_errstr";
            put_jstr(stdout, eav_errstr(e));
#ifdef VERIF_IDN_ADAPTER
            printf(",%d,%ld]", confirmed, verif_idn_create_failures - base_cf);
#else
            printf(",%d,0]", confirmed);
#endif
        } break;
        case 'e': {
            int idx = (int)strtol(tok + 1, NULL, 10), ret, fret;
            eav_t *f;
            if (confirmed < 0 || idx < 0 || idx >= pool_n) { printf("[\"skip\"]"); break; }
            g_stage = "decoy";
            decoys_check("while another object was being used");
            g_stage = "eav_is_email";
#ifdef VERIF_WRAP_IDN2
            fault_fired = 0;
#endif
            LIB(ret = eav_is_email(e, pool[idx], pool_len[idx]));
            {   /* every other validation: other objects work between the call and the first eav_errstr */
                static unsigned between = 0;
                if (between++ & 1) { g_stage = "decoy"; decoys_check("between another object's validation and its first eav_errstr"); }
            }
            printf("[\"e\",%d,", idx);
            put_obs(e, ret);
            printf(",%ld,%d,", led_live - base_live, expected_blocks(e));
            /* fresh-object differential with the model's settings */
            f = malloc(sizeof *f);
            poison(f, 0x5A, sizeof *f);
#ifdef VERIF_WRAP_IDN2
            in_fresh = 1;
#endif
#ifdef VERIF_IDN_ADAPTER
            long saved_cd = verif_idn_fail_create_countdown;   /* the reference object is exempt from the fault plan */
            verif_idn_fail_create_countdown = 0;
#endif
            eav_init(f);
            f->rfc = (EAV_RFC)confirmed;
            f->tld_check = e->tld_check;
            f->allow_tld = e->allow_tld;
            g_stage = "fresh";
            if (eav_setup(f) == 0) {
                fret = eav_is_email(f, pool[idx], pool_len[idx]);
                put_obs(f, fret);
            } else printf("null");
            eav_free(f);
            free(f);
#ifdef VERIF_IDN_ADAPTER
            verif_idn_fail_create_countdown = saved_cd;
#endif
#ifdef VERIF_WRAP_IDN2
            in_fresh = 0;
            printf(",%d,%d", fault_fired, fault_fired_code);
#else
            printf(",0,0");
#endif
            printf(",%d,%d,%d]", confirmed, (int)e->tld_check, e->allow_tld);
        } break;
        case 'k':
            e->ascii_cb = caller_cb;
#ifndef HAVE_IDNKIT
            e->utf8_cb = caller_cb;
#endif
            confirmed = -1;          /* what the object does now is the caller's business until the next successful set-up */
            printf("[\"k\"]");
            break;
        case 'm':
            g_stage = "eav_errstr";
            printf("[\"m\",");
            put_jstr(stdout, eav_errstr(e));
            printf(",%d]", e->errcode);
            break;
        case 'f':
            g_stage = "eav_free";
            LIB(eav_free(e));
            printf("[\"f\",%ld]", led_live - base_live);
            poison(e, 0x3C, sizeof *e);
            g_stage = "eav_init";
            LIB(eav_init(e));
            confirmed = -1;
            break;
#ifdef VERIF_IDN_ADAPTER
        case 'C':
            verif_idn_plan_create_failure(strtol(tok + 1, NULL, 10));
            printf("[\"C\"]");
            break;
#endif
#ifdef VERIF_WRAP_IDN2
        case 'F': {
            long k = 0; int code = 0, buf = 0;
            sscanf(tok + 1, "%ld:%d:%d", &k, &code, &buf);
            fault_countdown = k; fault_code = code; fault_buf = buf;
            printf("[\"F\"]");
        } break;
#endif
        default: printf("[\"?\"]");
        }
    }
    g_stage = "eav_free";
    LIB(eav_free(e));
    decoys_park();
    printf(",[\"end\",%ld,%ld,%ld,%ld", led_live - base_live, led_mallocs, led_frees, led_foreign_frees);
#ifdef VERIF_IDN_ADAPTER
    printf(",%ld,%ld,%ld,%ld,%ld,%ld", verif_idn_creates, verif_idn_destroys, verif_idn_live, verif_idn_bad_use + verif_idn_bad_actions * 1000000L,
           verif_idn_double_destroy, verif_idn_encodes);
#else
    printf(",null,null,null,null,null,null");
#endif
#ifdef VERIF_WRAP_IDN2
    printf(",%ld,%ld,%ld", wrap_calls, wrap_injected, fault_countdown);
    fault_countdown = -1;
#else
    printf(",null,null,null");
#endif
    printf(",%d]]\n", led_available);
    free(e);
}

int main(void)
{
    char *line = NULL; size_t cap = 0; ssize_t r;
    static char obuf[1 << 16];
    setvbuf(stdout, obuf, _IOFBF, sizeof obuf);
    drv_install_handlers();
#if defined(__SANITIZE_ADDRESS__)
    __sanitizer_install_malloc_and_free_hooks(led_on_malloc, led_on_free);
#endif
    while ((r = getline(&line, &cap, stdin)) > 0) {
        if (line[r - 1] == '\n') line[r - 1] = 0;
        g_case++;
        if (line[0] == 'P') {
            size_t n;
            pool = realloc(pool, sizeof(char *) * (size_t)(pool_n + 1));
            pool_len = realloc(pool_len, sizeof(size_t) * (size_t)(pool_n + 1));
            pool[pool_n] = hexdup(line + 2, &n);
            pool_len[pool_n] = n;
            pool_n++;
            printf("null\n");
        } else if (line[0] == 'W') {
            int m, i;
            for (m = 0; m < 4; m++) {
                eav_t w;
                eav_init(&w);
                w.rfc = (EAV_RFC)m;
                if (eav_setup(&w) == 0)
                    for (i = 0; i < pool_n; i++) (void)eav_is_email(&w, pool[i], pool_len[i]);
                eav_free(&w);
            }
            printf("null\n");
        } else if (line[0] == 'H') {
            run_history(line);
        } else if (line[0] == 'Q') break;
        else printf("null\n");
    }
    { int i; for (i = 0; i < pool_n; i++) free(pool[i]); free(pool); free(pool_len); }
    { int k; for (k = 0; k < NDECOY; k++) if (decoy[k]) { eav_free(decoy[k]); free(decoy[k]); } }
    free(line);
    return 0;
}
