#!/bin/sh
# Run the repository test-suite in a scratch copy for each documented make option (guard OFF). Usage: baseline_options.sh
set -e
T=$(mktemp -d /tmp/libeav-opt-XXXXXX)
trap 'rm -rf "$T"' EXIT
rc=0
for o in "" "RFC6531_FOLLOW_RFC5322=ON" "RFC6531_FOLLOW_RFC20=ON" "LABELS_ALLOW_UNDERSCORE=ON" "RFC6531_FOLLOW_RFC5322=ON RFC6531_FOLLOW_RFC20=ON"; do
  rm -rf "$T/r"; mkdir "$T/r"; (cd /repo && git ls-files -z | xargs -0 cp --parents -t "$T/r")
  # include uncommitted edits of tracked files (cp above already copies the working tree versions)
  if (cd "$T/r" && make $o >/dev/null 2>&1 && make $o check >"$T/log" 2>&1); then echo "options [$o]: make check OK"; else echo "options [$o]: make check FAILED"; tail -5 "$T/log"; rc=1; fi
done
exit $rc
