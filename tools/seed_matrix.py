#!/usr/bin/env python3
"""Run every registered quick check against every seeded mutant (scratch copy of /repo, evidence redirected) and write
seeded/matrix.json: which checks catch which changes.
   tools/seed_matrix.py [--related | --own] [--jobs N] [--fresh] [ids...]
   --related: own check + the checks mapped to the touched files + catch-alls;  --own: own check only;
   --jobs N: N mutants at a time;  --fresh: start from an empty matrix instead of updating seeded/matrix.json"""
import json, os, re, subprocess, sys, tempfile, shutil, time, threading
from concurrent.futures import ThreadPoolExecutor
HERE = os.path.dirname(os.path.dirname(os.path.abspath(__file__)))
os.chdir(HERE)
checks = [c["property_id"] for c in json.load(open("MANIFEST.json"))["checks"]]
RELATED = "--related" in sys.argv
OWN = "--own" in sys.argv
FRESH = "--fresh" in sys.argv
JOBS = 1
if "--jobs" in sys.argv:
    i = sys.argv.index("--jobs")
    JOBS = int(sys.argv[i + 1])
    del sys.argv[i:i + 2]
sys.argv = [a for a in sys.argv if a not in ("--related", "--own", "--fresh")]
ids = sys.argv[1:] or sorted(os.listdir("seeded"))
sys.path.insert(0, os.path.join(HERE, "tools"))
import automutate as _am


def related_checks(mid):
    """own check + the checks mapped to the files the patch touches (tools/automutate.py FILES) + the generic catch-alls"""
    own = mid.split("-")[0]
    rel = {own, "C06", "C01", "C15"}
    for l in open("seeded/%s/patch.diff" % mid, errors="replace"):
        if l.startswith("+++ b/"):
            f = l[6:].strip()
            rel.update(_am.FILES.get(f, []))
            if f.startswith("partial/idn") and not f.startswith("partial/idn2"):
                rel.add("C18")
            if f == "Makefile":
                rel.add("C17")
            if f.startswith(("data/", "util/", "src/auto_tld", "include/eav/auto_tld")):
                rel.update(["C11", "C07"])
    return [c for c in checks if c in rel]
ids = [i for i in ids if i != "not-kept" and os.path.exists("seeded/%s/patch.diff" % i)]
out_path = "seeded/matrix.json"
matrix = json.load(open(out_path)) if os.path.exists(out_path) and not FRESH else {}
lock = threading.Lock()


def one(mid):
    w = tempfile.mkdtemp(prefix="libeav-matrix-")
    try:
        r = os.path.join(w, "r")
        os.makedirs(r)
        subprocess.run("cd /repo && git ls-files -z | xargs -0 cp --parents -t %s" % r, shell=True, check=True)
        subprocess.run(["git", "init", "-q", "."], cwd=r)
        a = subprocess.run(["git", "apply", "--whitespace=nowarn", os.path.abspath("seeded/%s/patch.diff" % mid)], cwd=r)
        if a.returncode != 0:
            with lock:
                matrix[mid] = {"error": "patch does not apply"}
            print(mid, "PATCH DOES NOT APPLY", flush=True)
            return
        row = {}
        for p in ([mid.split("-")[0]] if OWN else related_checks(mid) if RELATED else checks):
            env = dict(os.environ, VERIF_REPO=r, VERIF_EVIDENCE_DIR=os.path.join(w, "ev"), VERIF_REPLAY_DIR=os.path.join(w, "rp"), VERIF_SEED="1")
            t0 = time.time()
            pr = subprocess.run(["./check", p, "--tier", "quick"], stdout=subprocess.PIPE, stderr=subprocess.STDOUT, env=env)
            txt = pr.stdout.decode("utf-8", "replace")
            keys = re.findall(r"^  key=(\S+)", txt, re.M)
            row[p] = {"exit": pr.returncode, "violations": txt.count("\nVIOLATION ") + txt.startswith("VIOLATION "), "first_keys": keys[:3], "tail": txt[-400:] if pr.returncode == 2 else "",
                      "wall_s": round(time.time() - t0, 1)}
        with lock:
            if OWN and isinstance(matrix.get(mid), dict) and "error" not in matrix[mid]:
                matrix[mid].update(row)          # --own refreshes the own-check cell and keeps the cells of earlier --related runs
            else:
                matrix[mid] = row
            json.dump(matrix, open(out_path, "w"), indent=1, sort_keys=True)
        caught = [p for p in row if row[p]["exit"] == 1]
        print(mid, "caught by", caught, "inconclusive:", [p for p in row if row[p]["exit"] == 2], "of", len(row), flush=True)
    finally:
        shutil.rmtree(w, ignore_errors=True)


with ThreadPoolExecutor(JOBS) as ex:
    list(ex.map(one, ids))
