#!/bin/sh
# Confirm a sub-agent mutant independently:  tools/confirm_seed.sh <dir-with-patchN/demoN> <N>
# In a fresh scratch worktree of /repo HEAD: clean tree builds, `make check` passes, demo exits 0; with the patch applied it
# still builds without new warnings, `make check` still passes, and the demo exits non-zero.  Prints one summary line.
D=$(readlink -f "$1"); N=$2
W=$(mktemp -d /tmp/libeav-conf-XXXXXX)
cleanup() { git -C /repo worktree remove --force "$W/wt" >/dev/null 2>&1; rm -rf "$W"; git -C /repo worktree prune; }
trap cleanup EXIT
git -C /repo worktree add -q --detach "$W/wt" HEAD || exit 9
cd "$W/wt"
rundemo() {
  if [ -f "$D/demo$N.sh" ]; then (cd "$W/wt" && sh "$D/demo$N.sh" "$W/wt") > "$W/demo.log" 2>&1; return $?; fi
  gcc -Iinclude -I. "$D/demo$N.c" -L. -leav -lidn2 -lpthread -o "$W/demo.bin" > "$W/demo.log" 2>&1 || return 99
  LD_LIBRARY_PATH=. timeout 600 "$W/demo.bin" >> "$W/demo.log" 2>&1
}
make > "$W/b0.log" 2>&1; b0=$?
make check > "$W/c0.log" 2>&1; c0=$?
rundemo; d0=$?
git checkout -q -- . ; make clean >/dev/null 2>&1
git apply --whitespace=nowarn "$D/patch$N.diff" || { echo "$D patch$N: DOES NOT APPLY"; exit 8; }
make > "$W/b1.log" 2>&1; b1=$?
w1=$(grep -c -i "warning" "$W/b1.log")
make check > "$W/c1.log" 2>&1; c1=$?
rundemo; d1=$?
ok=NO; [ $b0 -eq 0 ] && [ $c0 -eq 0 ] && [ $d0 -eq 0 ] && [ $b1 -eq 0 ] && [ $w1 -eq 0 ] && [ $c1 -eq 0 ] && [ $d1 -ne 0 ] && [ $d1 -ne 99 ] && ok=YES
echo "$(basename $(dirname $D)) patch$N: clean[build=$b0 check=$c0 demo=$d0] mutant[build=$b1 warnings=$w1 check=$c1 demo=$d1] CONFIRMED=$ok"
[ $ok = YES ] || tail -5 "$W/demo.log"
