#!/bin/sh
# Repository's own baseline with the verification guard OFF (stock Makefile, no -DLIBEAV_VERIF).
cd /repo && make clean >/dev/null 2>&1; make >/dev/null 2>&1 && make check
