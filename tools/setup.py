#!/usr/bin/env python3
"""Offline setup: nothing to download or pre-build (every check rebuilds from /repo's working tree). Verifies the tools."""
import shutil, subprocess, sys, os
need = ["gcc", "make", "git", "perl", "valgrind"]
missing = [t for t in need if shutil.which(t) is None]
if missing:
    print("missing tools: %s" % missing); sys.exit(1)
os.makedirs(os.path.join(os.path.dirname(os.path.dirname(os.path.abspath(__file__))), "evidence"), exist_ok=True)
print("setup ok")
