#!/usr/bin/env python3
"""Regenerates MANIFEST.json from the table below (keeps checks / not_applicable consistent with what exists)."""
import json, os, sys
HERE = os.path.dirname(os.path.dirname(os.path.abspath(__file__)))
sys.path.insert(0, HERE)

CHECKS = {
 # id: (level, technique, level text, level note, design ref)
 "C02": ("exploration", "sanitizer build + reference-automaton monitor over bounded-exhaustive / conformance / random inputs",
         "Every return code of is_822/5321/5322_local on ~10^6 (quick) to ~10^8 (thorough) strings is compared with an independent reference recogniser (two implementations cross-checked); exhaustive to length 5/7 over a 12-class alphabet, W-method conformance suite, all 255 bytes in every reference state, walks to 64 KiB, under ASan+UBSan.",
         "R-LOCAL encodes the statement; strings longer than the bound are sampled, not enumerated; NUL-free inputs.", "DESIGN.md 4/C02"),
 "C03": ("exploration", "sanitizer build + reference monitor (strict UTF-8 codec + RFC 5321 automaton) over exhaustive byte-sequence sweeps",
         "is_6531_local decisions compared with Python's strict UTF-8 codec + reference automaton on all 1-2 byte and (thorough: all 2^24) 3-byte sequences and a structured 4-byte cover in 12 structural positions, bounded-exhaustive token mixes, conformance/byte suites, plus the relation pure-ASCII => same as mode 5321.",
         "Python's UTF-8 codec is the definition of well-formedness; 4-byte space covered structurally.", "DESIGN.md 4/C03"),
 "C04": ("exploration", "sanitizer build + R-HOST reference monitor; bounded-exhaustive, boundary and per-byte sweeps; two builds",
         "is_ascii_domain decided exactly by R-HOST on all strings to length 6/8 over 6 classes, label length 0-70 x position, total length 236-261 x trailing dots, every byte at 12 positions; is_utf8_domain and the high-level call in mode 6531 checked one-directionally on the A-label string libidn2 returns; default and LABELS_ALLOW_UNDERSCORE builds.",
         "libidn2 (called directly by the driver) defines the A-label form.", "DESIGN.md 4/C04"),
 "C05": ("exploration", "sanitizer build + three-valued R-LITERAL monitor over grammar-directed and enumerated bracket contents",
         "High- and low-level calls in 4 modes x tld on/off on ~6*10^4 (quick) to ~10^6 (thorough) literals: MUST_ACCEPT region accepted with the right family flag, MUST_REJECT region rejected, EITHER region only checked for the family flag.",
         "EITHER region (zero first octet, >3-digit octets, untagged IPv6, '::' for one group, tag case) is deliberately not judged.", "DESIGN.md 4/C05"),

 "C01": ("exploration", "sanitizer build + differential monitor: high-level decision/code vs composition of the library's own per-part validators",
         "eav_is_email and is_<rfc>_email in 4 modes x tld off/on on ~4*10^4 (quick) to ~10^6 (thorough) addresses; each decision and error code must be a member of the composition of the public per-part validators applied by the driver to the halves split at the last '@'; wiring (mode set before setup is applied, later unconfirmed rfc is not - also after 66 000 validations, a second set-up is applied also when another object was set up in between) probed on every address; inputs at 16 alignments and in read-only pages; every IDN conversion forced to fail; local parts of 2^31 bytes.",
         "validity of each half is defined by the library's validators (C02-C05 judge those); bracketed domains shorter than 9 bytes not judged.", "DESIGN.md 4/C01"),
 "C07": ("exploration", "sanitizer build + table-driven reference lookup monitor over all rows, near misses and random labels",
         "rc / decision / error code of every mode (tld on) and is_tld() directly, for all 1591 rows x case forms x prefixes, every proper prefix / extension / substitution / splice of every row, random labels; U- vs A-label spelling of all IDN TLDs in mode 6531.",
         "table read from the text of src/auto_tld.c; root-dot domains not judged.", "DESIGN.md 4/C07"),
 "C08": ("exploration", "complete enumeration of the finite policy space through caller-installed callbacks + real addresses, monitored against R-POLICY",
         "All 2^11 masks x every result code x 4 modes x tld on/off via callbacks installed in the public eav_t (complete), plus real addresses of every class x all masks; eav_init defaults on poisoned memory.",
         "class/bit/error pairing by enum name from the public headers.", "DESIGN.md 4/C08"),
 "C09": ("exploration", "sanitizer build + R-SPECIAL iff-monitor over suffixes, one-edit neighbours, label-length sweeps and case patterns",
         "is_special_domain and rc==special in 4 modes for every reserved suffix / one-edit neighbour behind 0-3 labels of every length, all case patterns.",
         "valid host names without root dot only.", "DESIGN.md 4/C09"),
 "C10": ("exploration", "metamorphic monitor: U-label vs A-label spelling, 6531 vs ASCII modes, anchored on the same libidn2",
         "Oracle-free relations over generated U/A domain pairs from 8 script pools and all IDN TLDs, all-ASCII domains, and IDNA-invalid negatives.",
         "IDNA2008 validity approximated by conservative code-point pools pre-filtered through libidn2.", "DESIGN.md 4/C10"),
 "C11": ("translation_validation", "re-run the repository's generators and diff; live table walk and lookups vs an independent CSV reading",
         "Both generator programs run on the shipped CSVs and their output is compared line by line with the shipped table/header/test list; the generators are also run on the CSVs plus one synthetic row per documented rule; the compiled table is walked and every row and many non-rows (near misses, bit flips, labels colliding with a row under well-known 32-bit hashes) are looked up through is_tld().",
         "CSV is the source of truth; Text::CSV provided by a shim when absent.", "DESIGN.md 4/C11"),
 "C12": ("exploration", "metamorphic cross-mode monitor (R1-R3) over bounded-exhaustive and corpus addresses",
         "Relations between the four modes checked on all strings to length 4/5 over 12 tokens (as address, local part, domain), the C01 corpus and the C07 / C09 domain corpora behind rotating local parts, tld off/on.",
         "IDN exemption as stated in the property.", "DESIGN.md 4/C12"),
 "C15": ("exploration", "sanitizer build + truth-predicate monitor on every diagnostic (code, message, IDN message, setup)",
         "For every rejected call: ret<->errcode, non-empty message, code is a member of the per-part validators' verdicts, the condition named by the code and by the message holds of the input (reference predicates), IDN message equals idn2_strerror; eav_setup on every int class.",
         "message vocabulary pinned from the documentation; unknown texts are counted, not judged.", "DESIGN.md 4/C15"),
 "C16": ("exploration", "sanitizer build + result-record invariant monitor, default and EAV_EXTRA builds",
         "Flags/rc/lpart/domain of every result record (high- and low-level API, 4 modes, tld off/on) checked against the form of the domain and the composition verdict, in two builds.",
         "'syntactically invalid' = composition of per-part validators rejects with tld off.", "DESIGN.md 4/C16"),

 "C06": ("exploration", "ASan+UBSan+LSan builds, guard-page/read-only placement, valgrind memcheck on uninitialised eav_t, allocation ledger via sanitizer malloc hooks, callgrind instruction-count cost clock, libFuzzer (thorough)",
         "Every public entry point is driven on structural byte sweeps, the address corpus, 64 KiB-256 KiB adversarial families and random bytes under five independent instruments; any sanitizer report, fault at a guard page, memcheck error, ledger imbalance, abort or super-linear instruction growth is a violation; 9 MiB inputs under ASan, both halves handed to the direct validators, size-ladder histories on one object.",
         "evidence on reached paths only; intra-object overflows and libidn2 internals are not seen; allocation failure excluded by the statement.", "DESIGN.md 4/C06"),
 "C13": ("exploration", "history runner with fresh-object differential + allocation ledger (sanitizer malloc hooks) under ASan/LSan",
         "All op sequences to length 4/5(6 pruned) and random histories to length 200 on one eav_t; after every eav_is_email a fresh object with the model's settings must give the identical observation (return, code, message, result fields); and every step of the exhaustive set must equal the outcome of a new process; decoy objects with other settings (one failing in the IDN library) work between all operations and must never change; near-duplicate and digest-colliding addresses back to back; 66 000 validations on one object; ledger: the current record is live, held memory does not keep growing, nothing is live after eav_free.",
         "10-line sequential model of (confirmed mode, tld_check, allow_tld); errstr after a failed setup is judged by C15.", "DESIGN.md 4/C13"),
 "C14": ("exploration", "ThreadSanitizer + helgrind/drd race detection on a stress runner, with sequential-outcome comparison and measured call overlap",
         "2-16 threads x thousands of calls on 16 shared read-only strings, 13 call kinds, yield/sleep perturbation, several seeds; every outcome compared with a sequential reference; overlapping call pairs measured from per-call clock intervals; the libidn and idnkit source sets (against a lock-protected adapter) under TSan too; hundreds of cold process starts and IDN-failure storms at full speed.",
         "happens-before detection covers the executed partial orders; libidn2 is uninstrumented (helgrind/drd see it, TSan does not).", "DESIGN.md 4/C14"),
 "C17": ("exploration", "differential monitor across the 8 option builds (12 edges of the option cube) + Makefile dry runs",
         "Same bounded-exhaustive local parts / domains and the address corpus through all 8 builds; documented relation checked along every edge; default Makefile flags read from make -n.",
         "RFC6531_FOLLOW_RFC5322 is specified for pure-ASCII local parts only.", "DESIGN.md 4/C17"),
 "C18": ("exploration", "differential monitor across the three back-end source sets built against adapters + context create/destroy ledger",
         "partial/idn2, partial/idn, partial/idnkit compiled against adapters onto the same libidn2 converter; identical records demanded on the address corpus, the complete policy enumeration and C13 histories; idnkit context ledger (creates == destroys, no use after destroy, no double destroy) after every history, incl. planned creation failures and 66 000-call runs; the C07 / C09 / C10 domain corpora through all three; EAV_EXTRA builds; memcheck definedness for the foreign back ends.",
         "real libidn/idnkit absent: 'given equivalent IDN conversions' is realised by the adapters.", "DESIGN.md 4/C18"),
 "C19": ("fault_enumeration", "link-time fault injection (--wrap=idn2_to_ascii_8z) with ledger and fresh-object reference",
         "Every libidn2 return code (+2 unknown) x with/without leftover buffer injected at every conversion position of runs of validations, plus random multi-fault histories; faulted call must be contained, every other call must equal the fault-free outcome, ledger/LSan must balance; the message is read twice and under several allow_tld masks; threads failing at once with different codes (uninstrumented full-speed runner) must each get their own code's message.",
         "faults injected at the library boundary only (idn2_to_ascii_8z).", "DESIGN.md 4/C19"),
 "C20": ("exploration", "ASan+UBSan build of the tool as shipped (shared link) on generated files, monitored against a trimming model + the library's own verdicts",
         "1500 (quick) / 20000 (thorough) files of hostile line shapes (incl. multi-MiB lines, 5000 and 20k-100k lines, page-multiple sizes, BOM, lone CR), 1-3 / 24 / 90 files per invocation under a descriptor limit, directories / missing paths / FIFOs / stdin among them, stdout to a pipe or a file, C and C.UTF-8 locales; exit status, sanitizer silence, one verdict per non-comment line in order, verdict/message equality with the stand-alone library, echo for clean UTF-8 lines, stderr tally.",
         "echo compared only for well-formed control-free lines.", "DESIGN.md 4/C20"),
}
TODO_REASON = "check not built yet in this round (planned, see DESIGN.md section 4); no claim is made"


def main():
    props = [json.loads(l) for l in open(os.path.join(HERE, "properties.jsonl"))]
    checks, na = [], []
    for p in props:
        pid = p["id"]
        if pid in CHECKS and os.path.exists(os.path.join(HERE, "vlib", "props", pid.lower() + ".py")):
            lvl, tech, text, note, ref = CHECKS[pid]
            checks.append({
                "property_id": pid,
                "quick_cmd": "./check %s --tier quick" % pid,
                "thorough_cmd": "./check %s --tier thorough" % pid,
                "evidence_file": "/verif/evidence/%s.json" % pid,
                "replay_cmd_template": "./check replay {path}",
                "engine": "check",
                "level_claimed": {"category": lvl, "text": text, "design_ref": ref},
                "level_note": note,
                "technique": tech,
            })
        else:
            na.append({"property_id": pid, "reason": NA.get(pid, TODO_REASON)})
    m = {
        "version": 1,
        "setup_cmd": "python3 tools/setup.py",
        "hooks": {"guard": "LIBEAV_VERIF", "enable": "vlib/build.py compiles /repo sources with -DLIBEAV_VERIF (no source hook is currently needed; all observation is through the public API, link-time wrapping and sanitizer runtimes)",
                  "baseline_off_cmd": "sh tools/baseline.sh", "source_commits": [], "add_only": True},
        "engines": [{"name": "check", "path": "/verif/check", "serves_properties": [c["property_id"] for c in checks],
                     "kind_free_text": "Python orchestrator: builds sanitizer variants of /repo's working tree, runs C drivers (drv/*.c) on generated workloads, applies reference-model / metamorphic / ledger monitors, writes evidence"}],
        "checks": checks,
        "not_applicable": na,
        "notes": "Runtime monitoring and sanitizers only. Known findings / fixed defects: known_findings.json. Exit codes: 0 held, 1 violation, 2 inconclusive (harness).",
    }
    json.dump(m, open(os.path.join(HERE, "MANIFEST.json"), "w"), indent=1)
    print("MANIFEST.json: %d checks, %d not_applicable" % (len(checks), len(na)))

NA = {}

if __name__ == "__main__":
    main()
