#!/usr/bin/env python3
"""Regenerates MANIFEST.json from the table below (keeps checks / not_applicable consistent with what exists)."""
import json, os, sys
HERE = os.path.dirname(os.path.dirname(os.path.abspath(__file__)))
sys.path.insert(0, HERE)

CHECKS = {
 # id: (level, technique, level text, level note, design ref)
 "C02": ("exploration", "sanitizer build + reference-automaton monitor over bounded-exhaustive / conformance / random inputs",
         "Every return code of is_822/5321/5322_local on ~10^6 (quick) to ~10^8 (thorough) strings is compared with an independent reference recogniser (two implementations cross-checked); exhaustive to length 5/7 over a 12-class alphabet, W-method conformance suite, all 255 bytes in every reference state, walks to 64 KiB, under ASan+UBSan.",
         "R-LOCAL encodes the statement; strings longer than the bound are sampled, not enumerated; NUL-free inputs.", "DESIGN.md 4/C02"),
 "C03": ("exploration", "sanitizer build + reference monitor (strict UTF-8 codec + RFC 5321 automaton) over exhaustive byte-sequence sweeps",
         "is_6531_local decisions compared with Python's strict UTF-8 codec + reference automaton on all 1-2 byte and (thorough: all 2^24) 3-byte sequences and a structured 4-byte cover in 12 structural positions, bounded-exhaustive token mixes, conformance/byte suites, plus the relation pure-ASCII => same as mode 5321.",
         "Python's UTF-8 codec is the definition of well-formedness; 4-byte space covered structurally.", "DESIGN.md 4/C03"),
 "C04": ("exploration", "sanitizer build + R-HOST reference monitor; bounded-exhaustive, boundary and per-byte sweeps; two builds",
         "is_ascii_domain decided exactly by R-HOST on all strings to length 6/8 over 6 classes, label length 0-70 x position, total length 236-261 x trailing dots, every byte at 12 positions; is_utf8_domain and the high-level call in mode 6531 checked one-directionally on the A-label string libidn2 returns; default and LABELS_ALLOW_UNDERSCORE builds.",
         "libidn2 (called directly by the driver) defines the A-label form.", "DESIGN.md 4/C04"),
 "C05": ("exploration", "sanitizer build + three-valued R-LITERAL monitor over grammar-directed and enumerated bracket contents",
         "High- and low-level calls in 4 modes x tld on/off on ~6*10^4 (quick) to ~10^6 (thorough) literals: MUST_ACCEPT region accepted with the right family flag, MUST_REJECT region rejected, EITHER region only checked for the family flag.",
         "EITHER region (zero first octet, >3-digit octets, untagged IPv6, '::' for one group, tag case) is deliberately not judged.", "DESIGN.md 4/C05"),
}
TODO_REASON = "check not built yet in this round (planned, see DESIGN.md section 4); no claim is made"


def main():
    props = [json.loads(l) for l in open(os.path.join(HERE, "properties.jsonl"))]
    checks, na = [], []
    for p in props:
        pid = p["id"]
        if pid in CHECKS and os.path.exists(os.path.join(HERE, "vlib", "props", pid.lower() + ".py")):
            lvl, tech, text, note, ref = CHECKS[pid]
            checks.append({
                "property_id": pid,
                "quick_cmd": "./check %s --tier quick" % pid,
                "thorough_cmd": "./check %s --tier thorough" % pid,
                "evidence_file": "/verif/evidence/%s.json" % pid,
                "replay_cmd_template": "./check replay {path}",
                "engine": "check",
                "level_claimed": {"category": lvl, "text": text, "design_ref": ref},
                "level_note": note,
                "technique": tech,
            })
        else:
            na.append({"property_id": pid, "reason": NA.get(pid, TODO_REASON)})
    m = {
        "version": 1,
        "setup_cmd": "python3 tools/setup.py",
        "hooks": {"guard": "LIBEAV_VERIF", "enable": "vlib/build.py compiles /repo sources with -DLIBEAV_VERIF (no source hook is currently needed; all observation is through the public API, link-time wrapping and sanitizer runtimes)",
                  "baseline_off_cmd": "sh tools/baseline.sh", "source_commits": [], "add_only": True},
        "engines": [{"name": "check", "path": "/verif/check", "serves_properties": [c["property_id"] for c in checks],
                     "kind_free_text": "Python orchestrator: builds sanitizer variants of /repo's working tree, runs C drivers (drv/*.c) on generated workloads, applies reference-model / metamorphic / ledger monitors, writes evidence"}],
        "checks": checks,
        "not_applicable": na,
        "notes": "Runtime monitoring and sanitizers only. Known findings / fixed defects: known_findings.json. Exit codes: 0 held, 1 violation, 2 inconclusive (harness).",
    }
    json.dump(m, open(os.path.join(HERE, "MANIFEST.json"), "w"), indent=1)
    print("MANIFEST.json: %d checks, %d not_applicable" % (len(checks), len(na)))

NA = {}

if __name__ == "__main__":
    main()
