#!/usr/bin/env python3
"""Systematic syntactic mutation of /repo's sources (operator / constant / statement mutations), as a blind-spot finder for the
checks:  tools/automutate.py [--max N] [--seed S] [--out FILE]

For every mutant: scratch copy of /repo (tracked files), apply the one-line edit, `make` (must compile without new warnings) and
`make check` (must PASS - only such mutants are interesting: the brief asks for changes the existing tests do not see), then the
quick checks relevant to the edited file are run against the scratch copy (VERIF_REPO, evidence redirected).  Result per mutant:
killed-by-suite | does-not-compile | killed by [checks] | SURVIVED.  Survivors are either equivalent mutants or blind spots and
are meant to be read by a human."""
import json, os, random, re, shutil, subprocess, sys, tempfile, time

HERE = os.path.dirname(os.path.dirname(os.path.abspath(__file__)))
REPO = "/repo"
FILES = {
    "src/is_822_local.c": ["C02", "C12", "C15", "C06"],
    "src/is_5321_local.c": ["C02", "C12", "C15", "C06"],
    "src/is_5322_local.c": ["C02", "C12", "C15", "C06"],
    "src/is_6531_local.c": ["C03", "C15", "C17", "C06"],
    "src/utf8_decode.c": ["C03", "C06", "C20"],
    "src/is_ascii_domain.c": ["C04", "C15", "C17", "C06"],
    "src/is_ipv4_ipv6.c": ["C05", "C01", "C16", "C06"],
    "include/eav/private_email.h": ["C01", "C05", "C07", "C16", "C15", "C06"],
    "src/is_special_domain.c": ["C09", "C07", "C06", "C14"],
    "src/is_tld.c": ["C07", "C11", "C06"],
    "src/eav.c": ["C15", "C13", "C06", "C19"],
    "partial/idn2/eav.c": ["C08", "C13", "C15", "C01", "C06", "C19"],
    "partial/idn2/is_utf8_domain.c": ["C10", "C19", "C04", "C07", "C15", "C06"],
    "partial/idn2/is_6531_email.c": ["C01", "C12", "C16", "C06"],
    "src/is_822_email.c": ["C01", "C12", "C16", "C06"],
    "src/is_5321_email.c": ["C01", "C12", "C16", "C06"],
    "src/is_5322_email.c": ["C01", "C12", "C16", "C06"],
    "bin/main.c": ["C20"],
    "bin/main.h": ["C20"],
    # foreign back ends: not compiled by `make` here (so the suite cannot see any change); C18 builds them against the adapters
    "partial/idn/eav.c": ["C18"],
    "partial/idn/is_utf8_domain.c": ["C18"],
    "partial/idn/is_6531_email.c": ["C18"],
    "partial/idnkit/eav.c": ["C18"],
    "partial/idnkit/is_utf8_domain.c": ["C18"],
    "partial/idnkit/is_6531_email.c": ["C18"],
}

SWAPS = [(r"==", "!="), (r"!=", "=="), (r"<=", "<"), (r">=", ">"), (r"(?<![<>=!-])<(?![<=])", "<="), (r"(?<![<>=!-])>(?![>=])", ">="),
         (r"&&", "||"), (r"\|\|", "&&"), (r"\+ 1\b", "+ 2"), (r"\+ 1\b", "+ 0"), (r"- 1\b", "- 0"), (r"- 1\b", "- 2"),
         (r"\+\+", "--"), (r"\btrue\b", "false"), (r"\bfalse\b", "true"), (r"\(YES\)", "(NO)"), (r"\(NO\)", "(YES)"),
         (r"\bcp\[1\]", "cp[0]"), (r"\bcp\[-1\]", "cp[0]"), (r"\bcp\[2\]", "cp[1]"), (r"!quote", "quote"), (r"!qpair", "qpair"),
         (r"\bstart\b", "(start + 1)"), (r"\bend\b", "(end - 1)"), (r"\blen\b", "(len + 1)")]


def mutants_of(path, text):
    out = []
    lines = text.split("\n")
    incomment = False
    for i, l in enumerate(lines):
        st = l.strip()
        if "/*" in st and "*/" not in st:
            incomment = True
            continue
        if incomment:
            if "*/" in st:
                incomment = False
            continue
        if not st or st.startswith(("*", "/*", "//", "#include", "extern ", "#if", "#endif", "#else", "#elif")) or st in ("{", "}", "};"):
            continue
        # operator / token swaps (first occurrence per pattern per line)
        for pat, rep in SWAPS:
            m = re.search(pat, l)
            if m and '"' not in l[:m.start()].split("//")[0][-1:]:
                nl = l[:m.start()] + rep + l[m.end():]
                if nl != l:
                    out.append((i, l, nl, "swap %s -> %s" % (pat, rep)))
        # integer constants +-1
        for m in re.finditer(r"(?<![\w.\"'x])(\d+)(?![\w.\"'])", l):
            v = int(m.group(1))
            if v > 100000 or "case" in l and "'" in l:
                continue
            for nv in (v + 1, v - 1):
                if nv < 0:
                    continue
                out.append((i, l, l[:m.start()] + str(nv) + l[m.end():], "const %d -> %d" % (v, nv)))
        # statement deletions
        if re.match(r"\s*(return\b.*;|break;|continue;|goto \w+;)\s*(/\*.*\*/)?\s*$", l) and "\\" not in l:
            out.append((i, l, re.sub(r"\S.*$", ";", l, count=1), "delete statement"))
        if re.match(r"\s*[\w>.\-\[\]]+\s*(=|\+=|-=)\s*[^=].*;\s*(/\*.*\*/)?\s*(\\)?$", l) and "for (" not in l:
            cont = " \\" if l.rstrip().endswith("\\") else ""
            out.append((i, l, re.sub(r"\S.*$", lambda _m: ";" + cont, l, count=1), "delete assignment"))
        if re.match(r"\s*case\s+'.*':", l):
            out.append((i, l, re.sub(r"case\s+'(\\.|[^'])':", "", l, count=1), "drop one case label"))
        if re.match(r"\s*(else\s+)?if\s*\(", l) and l.rstrip().endswith(("{", ")")):
            out.append((i, l, re.sub(r"if\s*\(", "if (0 && (", l, count=1).rstrip("{ ") .rstrip() + (")" + (" {" if l.rstrip().endswith("{") else "")), "condition -> false"))
    return out


def sh(cmd, cwd, timeout=900, env=None):
    p = subprocess.run(cmd, cwd=cwd, shell=isinstance(cmd, str), stdout=subprocess.PIPE, stderr=subprocess.STDOUT, timeout=timeout, env=env)
    return p.returncode, p.stdout.decode("utf-8", "replace")


def main():
    args = sys.argv[1:]
    mx = int(args[args.index("--max") + 1]) if "--max" in args else 200
    seed = int(args[args.index("--seed") + 1]) if "--seed" in args else 1
    outp = args[args.index("--out") + 1] if "--out" in args else os.path.join(HERE, "seeded", "automutation.json")
    only = args[args.index("--files") + 1].split(",") if "--files" in args else None
    rng = random.Random(seed)
    allm = []
    for f, checks in FILES.items():
        if only and f not in only:
            continue
        text = open(os.path.join(REPO, f)).read()
        for (i, old, new, what) in mutants_of(f, text):
            allm.append((f, i, old, new, what))
    rng.shuffle(allm)
    results = json.load(open(outp)) if os.path.exists(outp) else {"mutants": []}
    done = {(m["file"], m["line"], m["what"], m["new"]) for m in results["mutants"]}
    base = tempfile.mkdtemp(prefix="libeav-automut-")
    try:
        r = os.path.join(base, "r")
        os.makedirs(r)
        sh("cd %s && git ls-files -z | xargs -0 cp --parents -t %s" % (REPO, r), "/")
        rc, out0 = sh("make 2>&1", r)
        warn0 = out0.lower().count("warning")
        n = 0
        for f, i, old, new, what in allm:
            if n >= mx:
                break
            if (f, i + 1, what, new.strip()) in done:
                continue
            p = os.path.join(r, f)
            orig = open(p).read()
            lines = orig.split("\n")
            if lines[i] != old:
                continue
            lines[i] = new
            open(p, "w").write("\n".join(lines))
            rec = {"file": f, "line": i + 1, "what": what, "old": old.strip(), "new": new.strip()}
            try:
                sh("make clean >/dev/null 2>&1", r)
                rc, out = sh("make 2>&1", r)
                if rc != 0 or out.lower().count("warning") > warn0:
                    rec["status"] = "does-not-compile-cleanly"
                else:
                    try:
                        rc, out = sh("make check 2>&1", r, timeout=300)
                    except subprocess.TimeoutExpired:
                        rc = 124
                    if rc != 0:
                        rec["status"] = "killed-by-suite"
                    else:
                        n += 1
                        killed = []
                        inc = []
                        ev = os.path.join(base, "ev")
                        for c in FILES[f]:
                            env = dict(os.environ, VERIF_REPO=r, VERIF_EVIDENCE_DIR=ev, VERIF_REPLAY_DIR=os.path.join(base, "rp"), VERIF_SEED="1",
                                       VERIF_WATCHDOG="900")
                            try:
                                crc, cout = sh([os.path.join(HERE, "check"), c, "--tier", "quick"], HERE, timeout=1200, env=env)
                            except subprocess.TimeoutExpired:
                                crc, cout = 2, "timeout"
                            if crc == 1:
                                killed.append(c)
                                k = re.findall(r"^  key=(\S+)", cout, re.M)
                                rec.setdefault("keys", {})[c] = k[:2]
                                break          # one killing check is enough
                            elif crc == 2:
                                inc.append(c)
                        rec["status"] = "killed-by-checks" if killed else ("inconclusive(build?)" if inc else "SURVIVED")
                        rec["killed_by"] = killed
                        rec["inconclusive"] = inc
                        print("%s:%d [%s] %s -> %s   %s" % (f, i + 1, what, old.strip()[:50], new.strip()[:50], rec["status"] + " " + ",".join(killed)), flush=True)
            finally:
                open(p, "w").write(orig)
            results["mutants"].append(rec)
            json.dump(results, open(outp, "w"), indent=1)
    finally:
        shutil.rmtree(base, ignore_errors=True)
    st = {}
    for m in results["mutants"]:
        st[m["status"]] = st.get(m["status"], 0) + 1
    print(st)


if __name__ == "__main__":
    main()
