#!/usr/bin/env python3
"""Pairs of same-length addresses with *different verdicts* that collide under well-known 32-bit string hashes (FNV-1a, FNV-1, djb2,
djb2-xor, sdbm, Java's 31x, Jenkins one-at-a-time, CRC-32, Adler-32, plain byte sum).  A "same address as last time" shortcut
keyed on length + digest answers the second address with the first one's result.  Deterministic; writes vlib/data/collisions.json.
   tools/gen_collisions.py [candidates-per-family]"""
import itertools, json, os, sys, zlib
N = int(sys.argv[1]) if len(sys.argv) > 1 else 260000
M = 0xffffffff


def fnv1a(b):
    h = 2166136261
    for c in b:
        h = ((h ^ c) * 16777619) & M
    return h


def fnv1(b):
    h = 2166136261
    for c in b:
        h = ((h * 16777619) & M) ^ c
    return h


def djb2(b):
    h = 5381
    for c in b:
        h = (h * 33 + c) & M
    return h


def djb2x(b):
    h = 5381
    for c in b:
        h = ((h * 33) & M) ^ c
    return h


def sdbm(b):
    h = 0
    for c in b:
        h = (c + (h << 6) + (h << 16) - h) & M
    return h


def java31(b):
    h = 0
    for c in b:
        h = (h * 31 + c) & M
    return h


def oaat(b):
    h = 0
    for c in b:
        h = (h + c) & M
        h = (h + (h << 10)) & M
        h ^= h >> 6
    h = (h + (h << 3)) & M
    h ^= h >> 11
    h = (h + (h << 15)) & M
    return h


HASHES = {"fnv1a": fnv1a, "fnv1": fnv1, "djb2": djb2, "djb2-xor": djb2x, "sdbm": sdbm, "java31": java31, "one-at-a-time": oaat,
          "crc32": lambda b: zlib.crc32(b) & M, "adler32": lambda b: zlib.adler32(b) & M, "bytesum": lambda b: sum(b) & M}
# families of equal length: (valid, invalid) and (host name, literal)
FAMILIES = [(b"%s@example.org", 7, b"%s.@example.org", 6),          # valid / trailing dot in the local part
            (b"%s@gmail.com", 6, b"%s@gmail.c-m", 6),               # valid / label ends... (hyphen inside: c-m is valid LDH but unlisted TLD)
            (b"%s@[10.0.0.1]", 8, b"%s@example.org", 7)]            # IPv4 literal / host name (result flags differ)
AL = b"abcdefghijklmnopqrstuvwxyz0123456789"


def words(k, n):
    out = []
    for t in itertools.product(AL, repeat=k):
        out.append(bytes(t))
        if len(out) >= n:
            break
    return out


def stride_words(k, n):
    # spread over the whole space instead of a common prefix
    total = len(AL) ** k
    step = max(1, total // n) | 1
    out = []
    x = 0
    for _ in range(n):
        v, w = x, bytearray()
        for _ in range(k):
            w.append(AL[v % len(AL)])
            v //= len(AL)
        out.append(bytes(w))
        x = (x + step) % total
    return out


res = {}
for name, fn in HASHES.items():
    pairs = []
    for fa, ka, fb, kb in FAMILIES:
        A = {}
        got = 0
        for w in stride_words(ka, N):
            s = fa % w
            A.setdefault(fn(s), s)
        for w in stride_words(kb, N):
            s = fb % w
            h = fn(s)
            if h in A and len(A[h]) == len(s):
                pairs.append([A[h].decode(), s.decode()])
                got += 1
                if got == 2:
                    break
    res[name] = pairs
    print(name, len(res[name]), res[name][:1], flush=True)
out = os.path.join(os.path.dirname(os.path.dirname(os.path.abspath(__file__))), "vlib", "data", "collisions.json")
json.dump(res, open(out, "w"), indent=1, sort_keys=True)
