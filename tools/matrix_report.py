#!/usr/bin/env python3
"""seeded/matrix.json + seeded/*/meta.json -> markdown table for DESIGN.md section 14."""
import json, os, sys
HERE = os.path.dirname(os.path.dirname(os.path.abspath(__file__)))
m = json.load(open(os.path.join(HERE, "seeded", "matrix.json")))
print("| mutant | what it needs to manifest | own check | also caught by (of the checks run) | first violation key of the own check |")
print("|---|---|---|---|---|")
missed = []
for mid in sorted(m):
    meta = json.load(open(os.path.join(HERE, "seeded", mid, "meta.json")))
    row = m[mid]
    own = meta["property"]
    caught = sorted(p for p, v in row.items() if isinstance(v, dict) and v.get("exit") == 1)
    inc = sorted(p for p, v in row.items() if isinstance(v, dict) and v.get("exit") == 2)
    ownres = "**caught**" if own in caught else ("inconclusive" if own in inc else "MISSED")
    if own not in caught:
        missed.append(mid)
    key = (row.get(own, {}).get("first_keys") or [""])[0]
    need = meta["needs_to_manifest"]
    if len(need) > 150:
        need = need[:147] + "..."
    print("| %s | %s | %s | %s (%d run)%s | `%s` |" % (mid, need.replace("|", "/"), ownres, ", ".join(c for c in caught if c != own) or "-", len(row),
                                           (" (inconclusive: %s)" % ", ".join(inc)) if inc else "", key[:70]))
print()
print("own-check detection: %d / %d%s" % (len(m) - len(missed), len(m), (" - not caught: " + ", ".join(missed)) if missed else ""))
