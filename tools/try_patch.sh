#!/bin/sh
# Apply a seeded patch to a scratch copy of /repo and run the given checks against it (never touches /repo or evidence/).
#   tools/try_patch.sh <patch.diff> [quick|thorough] Cxx [Cyy ...]
P=$(readlink -f "$1"); shift
T=quick; case "$1" in quick|thorough) T=$1; shift;; esac
W=$(mktemp -d /tmp/libeav-try-XXXXXX)
trap 'rm -rf "$W"' EXIT
mkdir "$W/r" "$W/ev" "$W/rp"
(cd /repo && git ls-files -z | xargs -0 cp --parents -t "$W/r")
(cd "$W/r" && git init -q . && git apply --whitespace=nowarn "$P") || { echo "PATCH DOES NOT APPLY"; exit 3; }
cd /verif
for p in "$@"; do
  VERIF_REPO="$W/r" VERIF_EVIDENCE_DIR="$W/ev" VERIF_REPLAY_DIR="$W/rp" ./check $p --tier $T > "$W/log" 2>&1; rc=$?
  echo "== $p rc=$rc: $(grep -c '^VIOLATION' "$W/log") violation(s)"; grep -E "^  key=" "$W/log" | cut -c1-220 | head -4; [ $rc -eq 2 ] && tail -3 "$W/log"
done
