#!/usr/bin/env python3
"""Unlisted labels that have the same length and the same 32-bit digest as a row of the TLD table, for well-known string hashes
(FNV-1a, FNV-1, djb2, djb2-xor, sdbm, Java 31x, CRC-32, byte sum).  A table look-up that compares digests instead of strings finds
them.  Run with the tooling interpreter (numpy): python3-vt tools/gen_tld_collisions.py  -> vlib/data/tld_collisions.json"""
import json, os, re, sys, zlib
import numpy as np
HERE = os.path.dirname(os.path.dirname(os.path.abspath(__file__)))
REPO = os.environ.get("VERIF_REPO", "/repo")
rows = []
for l in open(os.path.join(REPO, "src", "auto_tld.c"), encoding="utf-8", errors="replace"):
    m = re.search(r'\{\s*"([^"]*)"\s*,\s*(\d+)', l)
    if m:
        rows.append(m.group(1).lower().encode())
rowset = set(rows)
U = np.uint32


def h_fnv1a(a):
    h = np.full(a.shape[0], 2166136261, dtype=U)
    for j in range(a.shape[1]):
        h = (h ^ a[:, j]) * U(16777619)
    return h


def h_fnv1(a):
    h = np.full(a.shape[0], 2166136261, dtype=U)
    for j in range(a.shape[1]):
        h = (h * U(16777619)) ^ a[:, j]
    return h


def h_djb2(a):
    h = np.full(a.shape[0], 5381, dtype=U)
    for j in range(a.shape[1]):
        h = h * U(33) + a[:, j]
    return h


def h_djb2x(a):
    h = np.full(a.shape[0], 5381, dtype=U)
    for j in range(a.shape[1]):
        h = (h * U(33)) ^ a[:, j]
    return h


def h_sdbm(a):
    h = np.zeros(a.shape[0], dtype=U)
    for j in range(a.shape[1]):
        h = a[:, j] + (h << U(6)) + (h << U(16)) - h
    return h


def h_java(a):
    h = np.zeros(a.shape[0], dtype=U)
    for j in range(a.shape[1]):
        h = h * U(31) + a[:, j]
    return h


HASHES = {"fnv1a": h_fnv1a, "fnv1": h_fnv1, "djb2": h_djb2, "djb2-xor": h_djb2x, "sdbm": h_sdbm, "java31": h_java}
rng = np.random.default_rng(20261002)
res = {}
np.seterr(over="ignore")
for name, fn in HASHES.items():
    found = []
    for L in (6, 5, 7, 4):
        rl = [r for r in rows if len(r) == L and r.isalpha()]
        if not rl:
            continue
        ra = np.frombuffer(b"".join(rl), dtype=np.uint8).reshape(len(rl), L).astype(U)
        rh = fn(ra)
        table = dict(zip(rh.tolist(), rl))
        rhs = np.sort(rh)
        tries = 0
        while tries < 40 and len([f for f in found if len(f[0]) == L]) < 2:
            tries += 1
            c = rng.integers(97, 123, size=(4000000, L), dtype=np.uint8).astype(U)
            h = fn(c)
            idx = np.searchsorted(rhs, h)
            idx[idx >= len(rhs)] = 0
            hit = np.nonzero(rhs[idx] == h)[0]
            for k in hit.tolist():
                lab = bytes(c[k].astype(np.uint8).tolist())
                if lab not in rowset:
                    found.append([lab.decode(), table[int(h[k])].decode()])
        if len(found) >= 3:
            break
    res[name] = found[:4]
    print(name, res[name], flush=True)
# CRC-32 and byte sum need no search power: byte sum by permuting letters of a row
bs = []
for r in rows:
    if r.isalpha() and len(r) >= 4:
        p = r[1:2] + r[0:1] + r[2:]
        if p != r and p not in rowset:
            bs.append([p.decode(), r.decode()])
    if len(bs) >= 4:
        break
res["bytesum"] = bs
json.dump(res, open(os.path.join(HERE, "vlib", "data", "tld_collisions.json"), "w"), indent=1, sort_keys=True)
