#!/bin/sh
# Run every registered check (quick by default): tools/run_all.sh [quick|thorough] [seed]
cd "$(dirname "$0")/.."
T=${1:-quick}; S=${2:-1}
rc=0
for p in $(python3 -c "import json;print(' '.join(c['property_id'] for c in json.load(open('MANIFEST.json'))['checks']))"); do
  VERIF_SEED=$S ./check $p --tier $T > ${TMPDIR:-/tmp}/run_$$_$p.log 2>&1; r=$?
  tail -1 ${TMPDIR:-/tmp}/run_$$_$p.log | cut -c1-200
  [ $r -ne 0 ] && { rc=1; grep -E "VIOLATION|INCONCLUSIVE|KNOWN" ${TMPDIR:-/tmp}/run_$$_$p.log | head -5; }
done
exit $rc
