"""Local-part workloads shared by C02/C03/C17 (enumeration shards, conformance/byte suites, random walks)."""
import random
from . import oracle_local as OL
from . import gen, driver, core

MODE_IDX = {"822": 0, "5321": 1, "5322": 2, "6531": 3}
FN = {"822": "l822", "5321": "l5321", "5322": "l5322", "6531": "l6531"}

CLASS_BYTES = {}
for _c in range(1, 256):
    CLASS_BYTES.setdefault(OL.byte_class(_c), []).append(_c)


def fail_point(mode, b, opts=frozenset()):
    """Where the reference automaton rejects: 'STATE+class' of the first dead transition, 'end@STATE' when the
    string ends in a non-accepting state, 'utf8' for malformed UTF-8 in mode 6531, None if accepted."""
    if len(b) == 0:
        return "empty"
    if mode == "6531":
        syms = OL.utf8_symbols(b)
        if syms is None:
            return "utf8"
    else:
        syms = [OL.byte_class(c) for c in b]
    st = "S"
    for cl in syms:
        nx = OL.step(mode, st, cl, opts)
        if nx == "X":
            return "%s+%s" % (st, cl)
        st = nx
    return None if st in OL.ACCEPTING else "end@" + st


def trace_transitions(mode, b, opts=frozenset()):
    if mode == "6531":
        syms = OL.utf8_symbols(b)
        if syms is None:
            return set()
    else:
        syms = [OL.byte_class(c) for c in b]
    st = "S"
    seen = set()
    for cl in syms:
        nx = OL.step(mode, st, cl, opts)
        seen.add("%s+%s" % (st, cl))
        st = nx
        if st == "X":
            break
    return seen


def judge(mode, b, rc, opts, part, src):
    """Compare one library return code with the reference; record into part (worker partial result)."""
    exp = OL.accepts(mode, b, opts)
    got = (rc == 0)
    c = part["counters"]
    c["%s.%s" % (mode, "accept" if got else "reject")] += 1
    if not got:
        c["%s.err%d" % (mode, -rc if rc is not None else 999)] += 1
    if exp != got:
        if got:
            key = "%s/accepts-invalid/%s" % (mode, fail_point(mode, b, opts))
        else:
            key = "%s/rejects-valid/err%s" % (mode, -rc if rc is not None else "?")
        part["viol"].append((key, {"mode": mode, "local_part": core.b2s(b), "hex": b.hex()},
                             {"library_rc": rc, "reference_accepts": exp, "source": src}))
    return exp


def new_part():
    import collections
    return {"counters": collections.Counter(), "viol": [], "samples": [], "distinct": 0, "sets": {}}


def w_enum(exe, modes, tokens, k, prefix_idx, opts, prop, sample_every=0):
    """Worker: all strings prefix+w, w over tokens, |w|<=k, through the driver's N op for each mode."""
    part = new_part()
    opts = frozenset(opts)
    prefix = b"".join(tokens[i] for i in prefix_idx)
    strings = [prefix + s for s in gen.enum_strings(tokens, k)]
    toks = ",".join(t.hex() for t in tokens)
    for mode in modes:
        line = "N %s %d %s %s -" % (FN[mode], k, toks, driver.hx(prefix))
        try:
            raw = driver.run_lines(exe, [line], raw=True)
            rcs = gen.parse_packed(raw)
        except driver.DriverCrash as c:
            part["viol"].append(("%s/crash/%s" % (mode, c.signature()),
                                 {"mode": mode, "op": line}, {"stderr": c.stderr[-1500:]}))
            continue
        if len(rcs) != len(strings):
            raise core.Inconclusive("enumeration size mismatch %d vs %d" % (len(rcs), len(strings)))
        for b, rc in zip(strings, rcs):
            if len(b) == 0:
                continue
            judge(mode, b, rc, opts, part, "enum")
    part["distinct"] = sum(1 for s in strings if s)
    part["counters"]["enum.strings"] += len(strings)
    if strings:
        part["samples"].append({"source": "enum", "local_part": core.b2s(strings[len(strings) // 2])})
    return part


EMAIL_DOMAINS = [b"a.bc", b"[192.0.2.1]", b"[IPv6:2001:db8::1]", b"x-y.example.org", "почта.рф".encode(), "xn--p1ai.ею".encode()]
SUBRANGE_SUFFIXES = [b".", b"..", b'"', b"a", b"\\", b" ", b"\n ", b"\xa9", b"\x80\x80\x80", b"@x", b"\xc3"]


def w_list(exe, modes, strings, opts, prop, src, with_email=False, subrange=False):
    """Worker: explicit strings through the L op (all four validators at once)."""
    part = new_part()
    opts = frozenset(opts)
    lines = ["L " + driver.hx(b) for b in strings]
    recs, crashes = driver.run_lines_resilient(exe, lines)
    for idx, sig, err in crashes:
        b = strings[idx] if idx >= 0 else b""
        part["viol"].append(("crash/%s" % sig, {"local_part": core.b2s(b), "hex": b.hex()},
                             {"stderr": err[-1500:], "source": src}))
    for b, rec in zip(strings, recs):
        if rec is None or len(b) == 0:
            continue
        for mode in modes:
            judge(mode, b, rec[MODE_IDX[mode]], opts, part, src)
            part["sets"].setdefault("transitions." + mode, set()).update(trace_transitions(mode, b, opts))
    if subrange:
        # the validators take (start, end): the verdict must depend on [start, end) only, whatever bytes follow `end`
        # (through eav_is_email the byte at `end` is '@'; a direct caller may have anything there)
        sel = [b for b in strings if 0 < len(b) < 4096]
        for suf in SUBRANGE_SUFFIXES:
            lines = ["X %s %s" % (driver.hx(b), suf.hex()) for b in sel]
            recs2, crashes = driver.run_lines_resilient(exe, lines)
            for idx, sig, err in crashes:
                b = sel[idx] if idx >= 0 else b""
                part["viol"].append(("subrange/crash/%s" % sig, {"local_part": core.b2s(b), "hex": b.hex(), "bytes_after_end": core.b2s(suf)},
                                     {"stderr": err[-1500:], "source": src}))
            base = {b: r for b, r in zip(strings, recs)}
            for b, r2 in zip(sel, recs2):
                r1 = base.get(b)
                if r1 is None or r2 is None:
                    continue
                for mode in modes:
                    i = MODE_IDX[mode]
                    part["counters"]["subrange.compared"] += 1
                    if (r1[i] == 0) != (r2[i] == 0):
                        part["viol"].append(("%s/subrange/decision-depends-on-bytes-after-end" % mode,
                                             {"mode": mode, "local_part": core.b2s(b), "hex": b.hex(), "bytes_after_end": core.b2s(suf)},
                                             {"rc_nul_terminated": r1[i], "rc_subrange": r2[i], "source": src}))
    if with_email:
        # the high-level call on L@a.bc must reach the same decision (tld off), for |L| <= 64
        # the local-part decision must not depend on the kind of domain that follows: rotate host name / literals / IDN
        doms = EMAIL_DOMAINS if "6531" in modes else EMAIL_DOMAINS[:4]
        adom = [doms[i % len(doms)] for i in range(len(strings))]
        lines = [driver.A_line(b + b"@" + d, sections=1, modes=sum(1 << MODE_IDX[m] for m in modes), tlds=1)
                 for b, d in zip(strings, adom)]
        recs, crashes = driver.run_lines_resilient(exe, lines)
        for idx, sig, err in crashes:
            b = strings[idx] if idx >= 0 else b""
            part["viol"].append(("crash/%s" % sig, {"address": core.b2s(b + b"@...")},
                                 {"stderr": err[-1500:], "source": src}))
        for b, rec, d_ in zip(strings, recs, adom):
            if rec is None or len(b) == 0:
                continue
            for mode in modes:
                h = rec["hl"].get(str(MODE_IDX[mode] * 2))
                if h is None or h[0] < 0:
                    continue
                exp = OL.accepts(mode, b, opts) and len(b) <= 64
                part["counters"]["email.%s.%s" % (mode, "accept" if h[0] else "reject")] += 1
                if bool(h[0]) != exp:
                    part["viol"].append(("%s/email-decision/%s" % (mode, "accepts-invalid" if h[0] else "rejects-valid"),
                                         {"mode": mode, "address": core.b2s(b + b"@" + d_)},
                                         {"ret": h[0], "errcode": h[1], "reference_accepts": exp, "source": src}))
    part["distinct"] = len(set(strings))
    part["counters"]["%s.strings" % src] += len(strings)
    if strings:
        part["samples"].append({"source": src, "local_part": core.b2s(strings[len(strings) // 3][:120])})
    return part


def w_giant(exe, modes, size, opts, prop, which):
    """Worker: one local part larger than the default 8 MiB stack, handed to the local validators directly (the property is over
    every length; a scanner that copies its input onto the stack, or recurses per byte, dies here).  Judged by the regular-expression
    recogniser, which runs at C speed (it agrees with the automaton on every enumerated and conformance string)."""
    part = new_part()
    opts = frozenset(opts)
    n = size
    shapes = {
        "atom": b"a" * n,
        "dots": b"a." * (n // 2) + b"b",
        "quoted": b'"' + b"a\\ " * (n // 3) + b'a"',
        "late-8bit": b"a" * n + b"\x80",
        "late-space": b"a" * n + b" a",
        "utf8": ("\u00e9" * (n // 2)).encode(),
        "utf8-cut": ("\u00e9" * (n // 2)).encode() + b"\xc3",
    }
    b = shapes[which]
    recs, crashes = driver.run_lines_resilient(exe, ["L " + driver.hx(b)])
    for idx, sig, err in crashes:
        part["viol"].append(("crash/%s" % sig, {"local_part": "%s (shape %s, %d bytes)" % (core.b2s(b[:40]), which, len(b)), "shape": which,
                                                "bytes": len(b)}, {"stderr": err[-1500:], "source": "giant"}))
    for rec in recs:
        if rec is None:
            continue
        for mode in modes:
            exp = OL.rx_accepts(mode, b, opts)
            rc = rec[MODE_IDX[mode]]
            part["counters"]["giant.%s.%s" % (mode, "accept" if rc == 0 else "reject")] += 1
            if exp != (rc == 0):
                part["viol"].append(("%s/giant/%s" % (mode, "accepts-invalid" if rc == 0 else "rejects-valid"),
                                     {"mode": mode, "shape": which, "bytes": len(b), "local_part": core.b2s(b[:40]) + "..."},
                                     {"library_rc": rc, "reference_accepts": exp, "source": "giant"}))
    part["distinct"] = 1
    part["counters"]["giant.strings"] += 1
    part["counters"]["giant.bytes"] += len(b)
    return part


def dictionary_strings():
    """Real-world spellings (vlib/words.py) plus the *symbol-pair cover*: every pair of atext symbols (and a letter, a digit, a dot) at
    the start x every pair at the end of a short atom - a rule keyed on a specific two-byte prefix and suffix (RFC 2047 encoded
    words, BATV tags ...) cannot hide behind the class alphabets, where one symbol stands for all."""
    from . import words
    out = set(words.REAL_LOCALS)
    for w in words.REAL_LOCALS:
        out.add(w.upper())
        out.add(w.lower())
        out.add(w + b".x")
        out.add(b"x." + w)
    syms = [bytes([c]) for c in words.ATEXT_SYMBOLS] + [b"a", b"1", b"."]
    for a in syms:
        for b in syms:
            out.add(a + b)
            for c in syms:
                out.add(a + b + c)
                for d in syms:
                    out.add(a + b + b"x" + c + d)
    return sorted(x for x in out if x)


def block_strings(utf8=False):
    """Every byte value between runs of ordinary characters whose lengths sit around the block sizes of word-at-a-time and SIMD
    scanners (8, 16, 32, 64): a fast path that classifies a whole block at once must agree with the byte-wise rules."""
    out = []
    lens = (0, 1, 7, 8, 9, 15, 16, 17, 31, 32, 33, 63, 64, 65)
    unit = b"a"
    for c in range(1, 256):
        x = bytes([c])
        for i, p in enumerate(lens):
            for q in (lens if c < 0x80 and not chr(c).isalnum() else lens[i % 3::3]):
                out.append(unit * p + x + unit * q)
    # a quoted word / a dot / a closing quote right after an atom (or a quoted run) of each of those lengths
    for p in lens + (127, 128, 129, 191, 192, 193, 255, 256, 257):
        for pre in (b"", b"p."):
            for tail in (b'"x"', b'."x"', b'"x".a', b'.a', b'."x".b'):
                out.append(pre + unit * p + tail)
            out.append(pre + b'"' + unit * p + b'"x')
            out.append(pre + b'"' + unit * p + b'".x')
    if utf8:
        e = "\u00e9".encode()
        for p in lens:
            for q in lens:
                for x in (e, b",", b" ", b'"', b".", b"\xc3", b"\xa9"):
                    out.append(b"a" * p + x + e * (q // 2) + b"a" * (q % 2))
    return sorted(set(out))


HUGE = 1 << 31


def huge_cases(modes, tier):
    """(unit, reps, tail, suffix) whose length straddles the widths of int / unsigned int.  The strings are built inside the driver."""
    out = []
    ascii_ = any(m != "6531" for m in modes)
    if ascii_:
        out += [(b"a", HUGE + 16, b"", b"@example.com")]
        if tier != "quick":
            out += [(b"a.", HUGE // 2, b"b", b""), (b"a", HUGE, b" ", b""), (b"a", 2 * HUGE, b"", b"@example.com"), (b"a", 2 * HUGE + 3, b"\x80", b""), (b'"a\\ ', HUGE // 4, b'"', b"@[1.2.3.4]"),
                    (b"a", HUGE - 1, b"", b"@a.bc"), (b" ", 2 * HUGE, b"", b""), (b"a", 2 * HUGE, b".", b"")]
    if "6531" in modes:
        out += [(b"\xff", 2 * HUGE, b"", b""), (b"a", HUGE, b"", b"@example.com")]
        if tier != "quick":
            out += [("\u00e9".encode(), HUGE // 2 + 8, b"", b"@example.com"), ("\u00e9".encode(), HUGE, b"\xc3", b""),
                    (b"\xff", 2 * HUGE, b"a", b""), (b"a", 2 * HUGE, b"\xff", b""), (b"a", 2 * HUGE + 1, b"", b""),
                    ("\U0001f600".encode(), HUGE // 2, b".", b""), (b" ", 2 * HUGE, b"", b"@a.bc")]
    return out


def huge_jobs(exe, modes, tier, opts, prop, lanes=3, direct=True):
    """The huge cases as at most `lanes` sequential lists (bounds the memory in use at any time).  direct=False: only the cases with
    a domain behind them, and only through the high-level call."""
    cases = huge_cases(modes, tier)
    if not direct:
        cases = [c for c in cases if c[3]]
    return [(w_huge_list, (exe, modes, cases[i::lanes], opts, prop, direct)) for i in range(lanes) if cases[i::lanes]]


def w_huge_list(exe, modes, cases, opts, prop, direct=True):
    part = new_part()
    for case in cases:
        p = w_huge(exe, modes, case, opts, prop, direct)
        part["counters"].update(p["counters"])
        part["viol"] += p["viol"]
        part["distinct"] += p["distinct"]
    return part


def w_huge(exe, modes, case, opts, prop, direct=True):
    """Worker: one string of 2 GiB or more (lengths that do not fit an int / wrap an unsigned int), built by the driver's G op in an
    uninstrumented -O2 build; verdict from the reference automaton iterated over the repeated unit."""
    part = new_part()
    opts = frozenset(opts)
    unit, reps, tail, sfx = case
    line = "G %x %s %d %s %s -" % ((0x10 if direct else 0) | sum(1 << MODE_IDX[m] for m in modes), driver.hx(unit), reps, driver.hx(tail), driver.hx(sfx))
    n = len(unit) * reps + len(tail)
    wit = {"unit": core.b2s(unit), "repetitions": reps, "tail": core.b2s(tail), "bytes": n, "suffix": core.b2s(sfx)}
    try:
        recs = driver.run_lines(exe, [line], timeout=1500)
    except driver.DriverCrash as c:
        part["viol"].append(("huge/crash/%s" % c.signature(), wit, {"stderr": c.stderr[-1500:]}))
        return part
    except driver.DriverHang:
        try:                                   # a watchdog alone decides nothing: once more, alone
            recs = driver.run_lines(exe, [line], timeout=1500)
        except driver.DriverHang:
            part["viol"].append(("huge/hang/no-termination-within-1500s-twice", wit, {"timeout_s": 1500}))
            return part
        except driver.DriverCrash as c:
            part["viol"].append(("huge/crash/%s" % c.signature(), wit, {"stderr": c.stderr[-1500:]}))
            return part
    rec = recs[0]
    if not isinstance(rec, dict) or "skip" in rec or "n" not in rec:
        part["counters"]["huge.skipped-no-memory"] += 1
        return part
    for mode in modes:
        if "l" in rec:
            exp = OL.accepts_repeated(mode, unit, reps, tail, opts)
            rc = rec["l"][MODE_IDX[mode]]
            part["counters"]["huge.%s.%s" % (mode, "accept" if rc == 0 else "reject")] += 1
            if exp != (rc == 0):
                part["viol"].append(("%s/huge/%s" % (mode, "accepts-invalid" if rc == 0 else "rejects-valid"),
                                     dict(wit, mode=mode), {"library_rc": rc, "reference_accepts": exp, "source": "huge"}))
        h = (rec.get("hl") or {}).get(str(MODE_IDX[mode]))
        if h is not None and h[0] >= 0:
            part["counters"]["huge.email.%s" % mode] += 1
            # a local part of more than 64 bytes: not an address; no form flag, negative result code
            if h[0] != 0 or h[3] or h[4] or h[5] or h[6] >= 0:
                part["viol"].append(("%s/huge/email-%s" % (mode, "accepted" if h[0] else "record-inconsistent"), dict(wit, mode=mode),
                                     {"ret": h[0], "errcode": h[1], "flags": h[3:6], "rc": h[6], "source": "huge"}))
    part["distinct"] = 1
    part["counters"]["huge.strings"] += 1
    part["counters"]["huge.bytes"] += n
    return part


def width_boundary_strings(tier, utf8=False):
    """Inputs that straddle the widths a length / index / run counter might have (2^8, 2^15, 2^16): a long valid body with the
    deciding byte placed right at, before and after the boundary; long runs of one structural unit inside quotes."""
    out = []
    marks = [254, 255, 256, 257, 258, 510, 511, 512, 513, 32767, 32768, 32769, 65534, 65535, 65536, 65537, 65538]
    if tier != "quick":
        marks += [1023, 1024, 1025, 4095, 4096, 4097, 131071, 131072, 131073]
    unit = "é".encode() if utf8 else b"a"
    for n in marks:
        body = (unit * n)[:n]
        if utf8 and len(body) % 2:
            body = body[:-1] + b"a"
        for tail in (b"", b" ", b".", b"..b", b'"', b".\"q\"", b"(", b"\x80" if not utf8 else b"\xc3", b'."q"x'):
            out.append(body + tail)
        out.append(b"." + body)
        # runs inside a quoted string: whitespace, escaped pairs, dots; then an ordinary character and the closing quote
        for ru in (b" ", b"\t", b" \t", b"\r\n ", b"\\\\", b'\\"', b".", b"a "):
            run = (ru * (n // len(ru) + 1))[:n]
            if run.endswith(b"\\") and not run.endswith(b"\\\\"):
                run = run[:-1] + b"a"
            out.append(b'"' + run + b'a"')
            out.append(b'"a' + run + b'"')
            out.append(b'"' + run + b'"')
        out.append((b'"a".' * (n // 4 + 1))[:-1])
        out.append((b"a." * (n // 2 + 1)) + b"b")
    return [s for s in out if s and b"\x00" not in s]


def conformance_strings(mode, opts=frozenset()):
    return OL.conformance_suite(mode, opts, extra=1)


def byte_suite(mode, opts=frozenset()):
    """prefix(state) . b . suffix for every reachable reference state, every byte value 1..255."""
    access, _ = OL.reachable(mode, opts)
    suffixes = [b"", b"a", b'"', b'a"', b'.a', b' "']
    out = []
    for st, w in access.items():
        if st == "X":
            continue
        p = OL.word_bytes(w)
        for c in range(1, 256):
            for s in suffixes:
                out.append(p + bytes([c]) + s)
    return out


def _rand_byte_of(cl, rng):
    if cl == "u":
        while True:
            cp = rng.choice([rng.randrange(0x80, 0x800), rng.randrange(0x800, 0xd800), rng.randrange(0xe000, 0x10000),
                             rng.randrange(0x10000, 0x110000)])
            return chr(cp).encode("utf-8")
    return bytes([rng.choice(CLASS_BYTES[cl])])


_CLOSE = {"S": "a", "A": "", "Z": "", "Q0": "q", "Q1": "q", "W": "q", "E": "aq", "F1": "lsq", "F2": "sq"}


def random_valid(mode, rng, n, opts=frozenset()):
    """Random walk through the reference automaton: a valid local part of about n symbols."""
    st = "S"
    out = []
    classes = OL.classes_for(mode)
    weights = {"a": 8, "u": 4, "d": 3, "q": 2, "b": 2, "s": 2, "t": 1, "c": 1, "l": 1, "x": 1, "r": 2, "p": 2}
    for _ in range(n):
        cand = [c for c in classes if OL.step(mode, st, c, opts) != "X"]
        cl = rng.choices(cand, [weights.get(c, 1) for c in cand])[0]
        out.append(_rand_byte_of(cl, rng))
        st = OL.step(mode, st, cl, opts)
    for cl in _CLOSE[st]:
        out.append(_rand_byte_of(cl, rng))
        st = OL.step(mode, st, cl, opts)
    assert st in OL.ACCEPTING, st
    return b"".join(out)


def random_strings(mode, rng, count, maxlen, opts=frozenset()):
    out = []
    for i in range(count):
        n = rng.choice([1, 2, 5, 17, 63, 64, 65, 200, 1000, maxlen // 4, maxlen])
        n = max(1, min(n, maxlen))
        r = rng.random()
        if r < 0.45:
            out.append(random_valid(mode, rng, n, opts))
        elif r < 0.85:
            out.append(gen.mutate(random_valid(mode, rng, n, opts), rng, rng.randrange(1, 3)))
        else:
            out.append(gen.rand_bytes(rng, n))
    return [s for s in out if s and b"\x00" not in s]
