"""Shared workload generators."""
import itertools, os, random
from . import build

REPO = build.REPO


def data_lines(name):
    p = os.path.join(REPO, "data", name)
    out = []
    try:
        with open(p, "rb") as f:
            for l in f.read().split(b"\n"):
                if l.endswith(b"\r"):
                    l = l[:-1]
                if not l or l.startswith(b"#"):
                    continue
                out.append(l)
    except FileNotFoundError:
        pass
    return out


def unescape_slurp(l):
    """The *-slurp.txt files spell control characters as \\r \\n \\t \\v escapes."""
    return (l.replace(b"\\r", b"\r").replace(b"\\n", b"\n").replace(b"\\t", b"\t").replace(b"\\v", b"\v"))


def corpus_addresses():
    out = []
    for n in ("pass-email-ascii.txt", "fail-email-ascii.txt", "email-utf8.txt", "email-reg.ru.txt",
              "email-result-check.txt", "underscore.txt"):
        out += data_lines(n)
    for n in ("pass-email-ascii-slurp.txt", "fail-email-ascii-slurp.txt"):
        out += [unescape_slurp(l) for l in data_lines(n)]
    out = [a.replace(b"\x00", b"") for a in out]
    return sorted(set(a for a in out if a))


def corpus_localparts():
    out = []
    for n in ("localpart-ascii.txt", "localpart-utf8.txt", "localpart-utf8-rfc20.txt"):
        out += data_lines(n)
    for a in corpus_addresses():
        i = a.rfind(b"@")
        if i > 0:
            out.append(a[:i])
    return sorted(set(a for a in out if a and b"\x00" not in a))


def corpus_domains():
    out = []
    for n in ("domain-length.txt", "xn-dash-domains.txt", "underscore.txt"):
        out += data_lines(n)
    for a in corpus_addresses():
        i = a.rfind(b"@")
        if i >= 0 and i + 1 < len(a):
            out.append(a[i + 1:])
    return sorted(set(a for a in out if a and b"\x00" not in a))


def mutate(b, rng, n=1):
    """n random byte-level edits (flip/insert/delete/duplicate/truncate); never produces NUL."""
    b = bytearray(b)
    structural = b'@[].":\\ \r\n\t-_()<>,;' + bytes([0x80, 0xc3, 0xa9, 0xff, 0x7f, 0x01])
    for _ in range(n):
        op = rng.randrange(6)
        pos = rng.randrange(len(b) + 1)
        c = rng.choice(structural) if rng.random() < 0.7 else rng.randrange(1, 256)
        if op == 0 and b:
            b[pos % len(b)] = c
        elif op == 1:
            b.insert(pos, c)
        elif op == 2 and b:
            del b[pos % len(b)]
        elif op == 3 and b:
            i = pos % len(b)
            b[i:i] = b[i:i + rng.randrange(1, 4)]
        elif op == 4 and b:
            del b[pos:]
        else:
            b.insert(pos, c)
    return bytes(b)


def all_single_edits(b, alphabet):
    """Every one-byte substitution/insertion/deletion of b over alphabet."""
    out = set()
    for i in range(len(b) + 1):
        for c in alphabet:
            out.add(b[:i] + bytes([c]) + b[i:])
            if i < len(b):
                out.add(b[:i] + bytes([c]) + b[i + 1:])
        if i < len(b):
            out.add(b[:i] + b[i + 1:])
    out.discard(b)
    return sorted(out)


def aliasing_code_points():
    """Code points that look like a structural ASCII character after a narrowing conversion: low 8 / 16 bits equal to the
    character, or last UTF-8 byte equal to the character + 0x80 (what (char), toascii(), & 0x7f, (unsigned short) would see)."""
    out = set()
    for c in b'."\\@ ()<>[],;:':
        for k in (1, 2, 3, 6, 0x10, 0x20, 0x4e, 0xd7, 0xe0, 0xff):
            out.add(c | (k << 8))
        for k in range(1, 17):
            out.add(c | (k << 16))
            out.add(c | 0x2000 | (k << 16))
        lo = c | 0x80                       # continuation byte that aliases the character
        if 0x80 <= lo <= 0xbf:
            for lead in (0xc2, 0xc3, 0xd0, 0xdf):
                out.add(((lead & 0x1f) << 6) | (lo & 0x3f))
            out.add((0x4 << 12) | (0x2e << 6) | (lo & 0x3f))
            out.add((0x1 << 18) | (0x10 << 12) | (0x00 << 6) | (lo & 0x3f))
    for cp in range(0x300, 0x370, 7):       # combining marks (adjacent to dots and quotes in the templates)
        out.add(cp)
    out.update([0x20d0, 0x1ab0, 0x1dc0, 0xfe20])
    return sorted(cp for cp in out if cp >= 0x80 and cp <= 0x10ffff and not 0xd800 <= cp <= 0xdfff)


def enum_strings(tokens, k, minlen=0):
    """Canonical order used by the driver's N op: length-major, then lexicographic by token index."""
    for n in range(minlen, k + 1):
        for idx in itertools.product(range(len(tokens)), repeat=n):
            yield b"".join(tokens[i] for i in idx)


def parse_packed(raw):
    """Output of the N op -> list of rc ints."""
    lines = raw.split("\n")
    chars = []
    cnt = None
    for l in lines:
        if l.startswith("END "):
            cnt = int(l[4:])
            break
        if l.startswith("ERR"):
            raise ValueError(l)
        chars.append(l)
    s = "".join(chars)
    if cnt is None or cnt != len(s):
        raise ValueError("packed output truncated: %s vs %d" % (cnt, len(s)))
    return [ord(c) - 80 if c != "!" else None for c in s]


def rand_bytes(rng, n, weights=None):
    """Random NUL-free bytes biased toward structural ones."""
    structural = b'@[].":\\ \r\n\t-'
    out = bytearray()
    for _ in range(n):
        r = rng.random()
        if r < 0.35:
            out.append(rng.choice(structural))
        elif r < 0.75:
            out.append(rng.randrange(0x21, 0x7f))
        elif r < 0.9:
            out.append(rng.randrange(0x80, 0x100))
        else:
            out.append(rng.randrange(1, 0x21))
    return bytes(out)
