"""History workloads + trace monitors (C13, C18, C19) over drv/hist.c."""
import collections, itertools, json, random
from . import driver, core, model as _model, gen

POOL7 = [b"user@mail.ru", b"user@a.abarth", "x@неправильный☕.рф".encode(), b"u@[1.2.3.4]", b"a..b@c.com", b'"a b"@iana.org', b"",
         b"u@\xff\xfe.com", b"u@xn--a-.example.org"]     # (name kept; 9 addresses: + ill-formed UTF-8 domain, bad Punycode)


def new_part():
    return {"counters": collections.Counter(), "viol": [], "samples": [], "distinct": 0, "sets": {}}


def alphabet(mdl, npool):
    ops = ["r0", "r1", "r2", "r3", "r99", "r-1", "s", "t0", "t1", "ad", "a0", "a%x" % mdl.all_bits,
           "a%x" % (mdl.default_allow & ~mdl.class_bit("SPECIAL")), "m", "f"]
    ops += ["e%d" % i for i in range(npool)]
    return ops


def useful(seq):
    """A history is non-trivial if some eav_is_email comes after some eav_setup."""
    seen_s = False
    for op in seq:
        if op == "s":
            seen_s = True
        elif op[0] == "e" and seen_s:
            return True
    return False


def run_histories(exe, pool, programs, env=None):
    """Run the programs; returns (traces with None for the crashed ones, [(program index, signature, stderr)]).
    A crash kills the driver and with it the loaded pool, so the remaining programs are re-run in a new process that
    loads the pool again."""
    head = ["P " + driver.hx(a) for a in pool] + ["W"]
    traces = [None] * len(programs)
    crashes = []
    start = 0
    while start < len(programs):
        lines = head + ["H " + " ".join(p) for p in programs[start:]]
        try:
            recs = driver.run_lines(exe, lines, env=env)
            traces[start:] = recs[len(head):]
            break
        except driver.DriverCrash as c:
            done = c.index - len(head)
            if done < 0:
                crashes.append((-1, c.signature(), c.stderr))     # died while loading / warming up
                break
            traces[start:start + done] = c.records[len(head):len(head) + done]
            bad = start + done
            if bad >= len(programs):
                crashes.append((-1, c.signature(), c.stderr))     # died at exit (e.g. leak report)
                break
            crashes.append((bad, c.signature(), c.stderr))
            start = bad + 1
            if len(crashes) > 40:
                break
        except driver.DriverHang as h:
            bad = start + max(0, h.index - len(head))
            crashes.append((min(bad, len(programs) - 1), "hang/no-termination", str(h)))
            start = bad + 1
    return traces, crashes


def failed_setup_reference(exe, env=None):
    """(errcode, message) a fresh object reports after eav_setup with an undefined rfc."""
    tr, crashes = run_histories(exe, [b"a@b.cd"], [["r77", "s", "m"]], env=env)
    if not tr or tr[0] is None:
        return None
    return [tr[0][1][3], tr[0][2][2]]      # message of the 's' step, errcode of the 'm' step


def cold_reference(exec_exe, pool, masks, env=None):
    """Outcome of every (address, mode, tld_check, allow_tld) computed in a *new process per address* (cold static state, errno 0):
    the history-free reference against which a long-lived process is compared."""
    ref = {}
    for i, a in enumerate(pool):
        for mk in masks:
            try:
                r = driver.run_lines(exec_exe, [driver.A_line(a, sections=1, allow=mk)], env=env)[0]
            except driver.DriverCrash:
                continue
            for k, h in r["hl"].items():
                m, t = divmod(int(k), 2)
                ref[(i, m, t, mk)] = h[:8]
    return ref


def check_trace(prog, trace, mdl, part, extra=False, idnmsgs=None, src="hist", fault=None, setup_ref=None, cold=None):
    """Monitor one trace. fault: None or dict(code=.., buf=..) when a fault was planned in this history."""
    cnt = part["counters"]
    INV = mdl.E("INVALID_RFC")
    IDN = mdl.E("IDN_ERROR")
    confirmed, tld, allow = -1, 1, mdl.default_allow
    last_msg, last_err = None, None
    wit = {"history": " ".join(prog)}
    led = trace[-1][-1] == 1
    create_failures = 0
    pending_failed_setup = False
    prev_excess, grow_run = None, 0
    for op, st in zip(prog, trace[:-1]):
        kind = st[0]
        if op[0] == "r" or op[0] == "F" or op[0] == "C":
            continue
        if op == "k":
            confirmed = -1
            continue
        if op[0] == "t":
            tld = int(op[1])
        elif op[0] == "a":
            allow = mdl.default_allow if op[1] == "d" else int(op[1:], 16)
            if allow >= 1 << 31:
                allow -= 1 << 32               # the field is an int: the driver's strtol result is converted the same way
        elif op == "s":
            rfc, sr = st[1], st[2]
            cnt["setup"] += 1
            injected = len(st) > 5 and st[5] > create_failures
            if len(st) > 5:
                create_failures = st[5]
            if 0 <= rfc <= 3:
                if injected:
                    pending_failed_setup = True
                    cnt["setup.create-failure-injected"] += 1
                    if sr == 0:
                        part["viol"].append(("setup/back-end-failure-ignored", wit, {"rfc": rfc, "ret": sr, "source": src}))
                    confirmed = -1
                    last_msg = None
                elif sr != 0:
                    part["viol"].append(("setup/defined-mode-refused", wit, {"rfc": rfc, "ret": sr, "source": src}))
                    confirmed = -1
                else:
                    confirmed = rfc
            else:
                if sr != INV:
                    part["viol"].append(("setup/undefined-mode-return", wit, {"rfc": rfc, "ret": sr, "source": src}))
                # after a failed setup eav_errstr reports the invalid-RFC condition - the same text a fresh object gives
                last_msg, last_err = None, None
                pending_failed_setup = True
                if setup_ref is not None:
                    cnt["failed-setup.message-compared"] += 1
                    if st[3] != setup_ref[0]:
                        part["viol"].append(("errstr/after-failed-setup-differs-from-fresh-object", wit,
                                             {"message": st[3], "fresh_object_message": setup_ref[0], "source": src}))
                    last_msg, last_err = setup_ref[0], setup_ref[1]
        elif op[0] == "e":
            if kind == "skip":
                if confirmed >= 0:
                    raise core.Inconclusive("driver skipped a validation the model allows: %s" % wit)
                continue
            _, idx, obs, live, expblocks, fresh, fired, fcode, dconf, dtld, dallow = st
            if dconf != confirmed:
                if any(o[0] == "C" for o in prog):
                    # a planned back-end creation failure was consumed by a creation the model does not know about (a library may
                    # create its context lazily): the rest of this history is not judged step by step; the ledgers in the end
                    # record (blocks, contexts created / destroyed) still are
                    cnt["history.not-judged-after-unexpected-create"] += 1
                    return trace[-1]
                raise core.Inconclusive("driver/model confirmed mode diverge: %s vs %s in %s" % (dconf, confirmed, wit))
            if (dtld, dallow) != (tld, allow):
                part["viol"].append(("settings-changed-by-library", wit, {"step": op, "tld_check,allow_tld": [dtld, dallow],
                                     "set_by_caller": [tld, allow], "source": src}))
                tld, allow = dtld, dallow
            cnt["is_email"] += 1
            cnt["is_email.mode%d" % confirmed] += 1
            if fired:
                cnt["faults.fired"] += 1
                want = idnmsgs.get(str(fcode)) if idnmsgs else None
                bad = []
                if obs[0] != 0:
                    bad.append("accepted")
                if obs[1] != IDN:
                    bad.append("errcode=%s" % obs[1])
                if len(obs) > 7 and obs[7] != fcode:
                    bad.append("idn_rc=%s" % obs[7])
                if want is not None and obs[2] != want:
                    bad.append("message")
                if len(obs) > 5 and (obs[3] or obs[4] or obs[5]):
                    bad.append("flag-set")
                if bad:
                    part["viol"].append(("fault/not-contained/%s" % "+".join(bad), wit,
                                         {"injected_code": fcode, "observed": obs, "library_message": want, "source": src}))
            else:
                if fresh is None:
                    raise core.Inconclusive("fresh object could not be set up: %s" % wit)
                if obs != fresh:
                    fields = ["ret", "errcode", "message", "is_ipv4", "is_ipv6", "is_domain", "rc", "idn_rc", "lpart", "domain"]
                    diff = [fields[i] for i in range(min(len(obs), len(fresh))) if obs[i] != fresh[i]] or ["shape"]
                    part["viol"].append(("history-dependence/%s" % "+".join(diff), wit,
                                         {"step": op, "reused_object": obs, "fresh_object": fresh, "source": src}))
            if cold is not None and not fired:
                cr = cold.get((idx, confirmed, tld, allow))
                if cr is not None:
                    cnt["cold.compared"] += 1
                    if obs[:8] != cr:
                        fields = ["ret", "errcode", "message", "is_ipv4", "is_ipv6", "is_domain", "rc", "idn_rc"]
                        diff = [fields[i] for i in range(8) if obs[i] != cr[i]] or ["shape"]
                        part["viol"].append(("history-dependence/vs-new-process/%s" % "+".join(diff), wit,
                                             {"step": op, "long_lived_process": obs[:8], "new_process": cr, "source": src}))
            if led:
                # blocks the library holds after the call, beyond the current result record.  An object may keep scratch memory until
                # eav_free (what is still live after eav_free / at the end is judged there); what the statements exclude is memory that is
                # never released (seen at eav_free) and a previous result record that outlives the next call - i.e. an excess that
                # *keeps growing* from call to call.  Fewer blocks than the current record needs means the record was freed under it.
                excess = live - expblocks
                if excess < 0:
                    part["viol"].append(("ledger/result-record-not-live-after-is_email/%+d" % excess, wit,
                                         {"step": op, "live": live, "expected": expblocks, "source": src}))
                if excess > 0:
                    cnt["ledger.calls-with-extra-live-blocks"] += 1
                if prev_excess is not None and excess > prev_excess:
                    grow_run += 1
                    if grow_run >= 3:
                        part["viol"].append(("ledger/live-blocks-grow-with-every-call", wit,
                                             {"step": op, "live": live, "expected": expblocks, "source": src}))
                        grow_run = 0
                elif prev_excess is not None and excess < prev_excess:
                    grow_run = 0
                prev_excess = excess
            last_msg, last_err = obs[2], obs[1]
            pending_failed_setup = False
        elif op == "m":
            cnt["errstr.reread"] += 1
            if last_msg is None and not pending_failed_setup and (st[2] != 0 or not st[1]):
                part["viol"].append(("errstr/before-any-validation", wit, {"message": st[1], "errcode": st[2], "source": src}))
            if last_msg is not None and (st[1] != last_msg or st[2] != last_err):
                part["viol"].append(("errstr/not-the-last-validation", wit, {"message": st[1], "errcode": st[2],
                                     "last_validation": [last_err, last_msg], "source": src}))
        elif op == "f":
            cnt["free+init"] += 1
            if led and st[1] != 0:
                part["viol"].append(("ledger/live-blocks-after-free/%+d" % st[1], wit, {"live": st[1], "source": src}))
            confirmed, tld, allow = -1, 1, mdl.default_allow
            last_msg = None
            pending_failed_setup = False
            prev_excess, grow_run = None, 0
    end = trace[-1]
    if led and end[1] != 0:
        part["viol"].append(("ledger/live-blocks-at-end/%+d" % end[1], wit, {"live": end[1], "source": src}))
    return end
