"""./check replay <file>: re-execute the witness of a recorded violation against /repo's current working tree and print what
the library does now (observation records of the batch driver / history driver)."""
import json, os, sys
from . import build, ctx as _ctx, driver, core, histmon


def main(argv):
    if not argv:
        print("usage: ./check replay <replay.json> [--rerun]")
        return 2
    d = json.load(open(argv[0]))
    w = d.get("witness") or {}
    print("property=%s key=%s (recorded at tier=%s seed=%s, seen %s times)" % (d.get("property"), d.get("key"), d.get("tier"), d.get("seed"), d.get("count")))
    print("witness:", json.dumps(w, ensure_ascii=True)[:2000])
    cx = _ctx.Ctx("replay")
    shown = False
    if isinstance(w, dict) and "history" in w:
        exe = cx.exe("asan-hist", driver=("drv/hist.c",))
        prog = w["history"].split()
        tr, crashes = histmon.run_histories(exe, histmon.POOL7, [prog])
        print("trace (pool = POOL7):", json.dumps(tr[0])[:4000])
        for c in crashes:
            print("CRASH:", c[1], c[2][-1500:])
        shown = True
    elif isinstance(w, dict) and ("hex" in w or "address" in w or "local_part" in w or "domain" in w):
        exe = cx.exe("asan")
        if "hex" in w:
            b = bytes.fromhex(w["hex"])
        else:
            s = w.get("address") or w.get("local_part") or w.get("domain")
            b = s.encode("latin-1").decode("unicode_escape").encode("latin-1")
        if "domain" in w and "address" not in w and "local_part" not in w:
            lines = ["D " + driver.hx(b), driver.A_line(b"x@" + b, sections=15)]
        elif "local_part" in w:
            lines = ["L " + driver.hx(b), driver.A_line(b + b"@a.bc", sections=15)]
        else:
            lines = [driver.A_line(b, sections=31)]
        recs, crashes = driver.run_lines_resilient(exe, lines)
        for l, r in zip(lines, recs):
            print("op:", l[:200])
            print("  record:", json.dumps(r)[:3000])
        for c in crashes:
            print("CRASH:", c[1], c[2][-2000:])
        shown = True
    if not shown or "--rerun" in argv:
        print("re-running the whole check with the recorded tier/seed ...")
        import importlib
        mod = importlib.import_module("vlib.props." + d["property"].lower())
        return mod.main(d.get("tier", "quick"), int(d.get("seed", 1)))
    return 0
