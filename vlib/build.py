"""Build libeav variants from /repo's *working tree* into a private temp directory.

Nothing is ever written under /repo.  Objects are named by their full source path so
src/eav.c and partial/<backend>/eav.c do not collide.  The stock -D set is read from a
dry run of the repository Makefile (make -n -B), so a Makefile change that turns an
option on by default changes the "default" build too (C17 compares it with an explicit
no-option build).
"""
import os, re, shutil, subprocess, sys, tempfile, atexit, hashlib
from concurrent.futures import ThreadPoolExecutor

REPO = os.environ.get("VERIF_REPO", "/repo")
VERIF = os.path.dirname(os.path.dirname(os.path.abspath(__file__)))

SAN_FLAGS = {
    # one sanitizer family per build
    "asan": ["-O1", "-g", "-fno-omit-frame-pointer", "-fsanitize=address,undefined",
             "-fno-sanitize-recover=all"],
    # what a user who sets CFLAGS for speed compiles (the Makefile has `CFLAGS ?=`): target-specific code paths (#ifdef __SSE4_2__,
    # __AVX2__ ...) and the vectoriser are only alive here
    "asan-native": ["-O2", "-march=native", "-g", "-fno-omit-frame-pointer", "-fsanitize=address,undefined", "-fno-sanitize-recover=all"],
    "tsan": ["-O1", "-g", "-fno-omit-frame-pointer", "-fsanitize=thread"],
    "plain-O0": ["-O0", "-g", "-fno-omit-frame-pointer"],
    "plain-O2": ["-O2", "-g", "-fno-omit-frame-pointer"],
    "fuzz": ["-O1", "-g", "-fno-omit-frame-pointer", "-fsanitize=fuzzer-no-link,address,undefined",
             "-fno-sanitize-recover=all"],
}
OPTION_MACROS = ["RFC6531_FOLLOW_RFC5322", "RFC6531_FOLLOW_RFC20", "LABELS_ALLOW_UNDERSCORE"]

BASE_CPP = ["-D_DEFAULT_SOURCE", "-D_XOPEN_SOURCE=700", "-D_SVID_SOURCE", "-D__EXTENSIONS__", "-fPIC",
            "-std=c99"]

_tmp_roots = []


def _cleanup():
    for d in _tmp_roots:
        shutil.rmtree(d, ignore_errors=True)


atexit.register(_cleanup)


def workdir(tag="w"):
    """A private scratch directory removed at interpreter exit."""
    base = os.environ.get("VERIF_TMP") or tempfile.gettempdir()
    d = tempfile.mkdtemp(prefix="libeav-verif-%s-" % tag, dir=base)
    _tmp_roots.append(d)
    return d


def run(cmd, **kw):
    p = subprocess.run(cmd, stdout=subprocess.PIPE, stderr=subprocess.STDOUT, **kw)
    return p.returncode, p.stdout.decode("utf-8", "replace")


_stock_cache = {}


def stock_make_defs(extra_make_args=()):
    """-D tokens the repository Makefile would pass when compiling a library source
    (dry run: nothing is written).  Returns (list_of_-D, raw_command_line)."""
    key = tuple(extra_make_args)
    if key in _stock_cache:
        return _stock_cache[key]
    rc, out = run(["make", "-n", "-B", "--no-print-directory", "src/is_6531_local.o"] + list(extra_make_args),
                  cwd=REPO)
    line = ""
    for l in out.splitlines():
        if "-c src/is_6531_local.c" in l:
            line = l
    defs = re.findall(r"(?<!\S)-D\S+", line)
    _stock_cache[key] = (defs, line)
    return defs, line


def make_compile_lines(make_args=(), env_extra=None, targets=("libeav.so", "libeav.a")):
    """Every compile command (`... -c <file>.c`) the stock Makefile would run for the shared AND the static library (dry run)."""
    env = dict(os.environ)
    for m in OPTION_MACROS:
        env.pop(m, None)
    if env_extra:
        env.update(env_extra)
    p = subprocess.run(["make", "-n", "-B", "--no-print-directory"] + list(targets) + list(make_args), cwd=REPO, stdout=subprocess.PIPE,
                       stderr=subprocess.STDOUT, env=env)
    out = p.stdout.decode("utf-8", "replace")
    lines = []
    for l in out.splitlines():
        m = re.search(r"-c\s+(\S+\.c)\b", l)
        if m and re.match(r"\s*\S*(cc|gcc|clang)\b", l.strip().split()[0] if l.strip() else ""):
            lines.append((m.group(1), re.findall(r"(?<!\S)-D(\S+)", l), l))
    return lines


def stock_option_macros():
    """Which of the three documented option macros the stock Makefile turns on by default."""
    defs, _ = stock_make_defs()
    on = []
    for m in OPTION_MACROS:
        if ("-D" + m) in defs:
            on.append(m)
    return on


def lib_sources(backend="idn2"):
    src = sorted(f for f in os.listdir(os.path.join(REPO, "src")) if f.endswith(".c"))
    part = sorted(f for f in os.listdir(os.path.join(REPO, "partial", backend)) if f.endswith(".c"))
    return [os.path.join("src", f) for f in src] + [os.path.join("partial", backend, f) for f in part]


def repo_state():
    rc, head = run(["git", "-C", REPO, "rev-parse", "--short", "HEAD"])
    rc2, st = run(["git", "-C", REPO, "status", "--porcelain", "--untracked-files=no"])
    return {"head": head.strip(), "dirty": bool(st.strip()),
            "dirty_files": [l[3:] for l in st.splitlines()][:20]}


class BuildError(Exception):
    pass


def _compile(cc, flags, src, obj, cwd):
    rc, out = run([cc] + flags + ["-o", obj, "-c", src], cwd=cwd)
    if rc != 0:
        raise BuildError("compile failed: %s\n%s" % (src, out))
    return obj


def build_objects(outdir, san="asan", defs=None, backend="idn2", cc="gcc", extra_inc=(), use_stock_options=True,
                  hooks=True):
    """Compile the library sources.  defs: list of macro names (without -D) to add.
    Returns list of object paths."""
    os.makedirs(outdir, exist_ok=True)
    backend_def = {"idn2": "-DHAVE_LIBIDN2", "idn": "-DHAVE_LIBIDN", "idnkit": "-DHAVE_IDNKIT"}[backend]
    flags = list(SAN_FLAGS[san]) + BASE_CPP + ["-Iinclude", "-I.", backend_def]
    for i in extra_inc:
        flags.append("-I" + i)
    macros = list(defs or [])
    if use_stock_options:
        for m in stock_option_macros():
            if m not in macros:
                macros.append(m)
    for m in macros:
        flags.append("-D" + m)
    if hooks:
        flags.append("-DLIBEAV_VERIF")
    srcs = lib_sources(backend)
    jobs = []
    with ThreadPoolExecutor(max_workers=min(16, len(srcs))) as ex:
        for s in srcs:
            obj = os.path.join(outdir, s.replace("/", "__")[:-2] + ".o")
            jobs.append(ex.submit(_compile, cc, flags, s, obj, REPO))
        objs = [j.result() for j in jobs]
    return objs, flags


def link_driver(outdir, name, driver_srcs, objs, san="asan", cc="gcc", cflags=(), ldflags=(), libs=("-lidn2",),
                extra_inc=(), defs=()):
    """Compile driver sources (from /verif/drv) against the repo headers and link with objs."""
    exe = os.path.join(outdir, name)
    flags = list(SAN_FLAGS[san]) + ["-D_GNU_SOURCE", "-I" + os.path.join(REPO, "include"), "-I" + REPO,
                                    "-I" + os.path.join(VERIF, "drv")]
    for i in extra_inc:
        flags.append("-I" + i)
    for d in defs:
        flags.append("-D" + d)
    flags += list(cflags)
    srcs = [s if os.path.isabs(s) else os.path.join(VERIF, s) for s in driver_srcs]
    rc, out = run([cc] + flags + ["-o", exe] + srcs + list(objs) + list(ldflags) + list(libs) + ["-lpthread"])
    if rc != 0:
        raise BuildError("link failed: %s\n%s" % (name, out))
    return exe


def build_variant(outdir, name, driver_srcs, san="asan", defs=None, backend="idn2", cc="gcc", extra_inc=(),
                  use_stock_options=True, ldflags=(), libs=("-lidn2",), driver_defs=(), extra_objs_srcs=()):
    """One call: library objects + driver -> executable path."""
    vdir = os.path.join(outdir, name)
    objs, flags = build_objects(vdir, san=san, defs=defs, backend=backend, cc=cc, extra_inc=extra_inc,
                                use_stock_options=use_stock_options)
    ddefs = list(driver_defs)
    for m in (defs or []):
        ddefs.append(m)
    if use_stock_options:
        for m in stock_option_macros():
            if m not in ddefs:
                ddefs.append(m)
    backend_def = {"idn2": "HAVE_LIBIDN2", "idn": "HAVE_LIBIDN", "idnkit": "HAVE_IDNKIT"}[backend]
    ddefs.append(backend_def)
    exe = link_driver(vdir, name + ".bin", list(driver_srcs) + list(extra_objs_srcs), objs, san=san, cc=cc,
                      ldflags=ldflags, libs=libs, extra_inc=extra_inc, defs=ddefs)
    return exe, flags


SAN_ENV = {
    "ASAN_OPTIONS": "abort_on_error=1:detect_leaks=1:halt_on_error=1:allocator_may_return_null=1:"
                    "detect_stack_use_after_return=1:strict_string_checks=0:handle_abort=0",
    "UBSAN_OPTIONS": "print_stacktrace=1:halt_on_error=1:abort_on_error=1",
    "LSAN_OPTIONS": "exitcode=23",
    "TSAN_OPTIONS": "halt_on_error=1:exitcode=66:second_deadlock_stack=1",
    "LC_ALL": "C",
}


def san_env(extra=None):
    e = dict(os.environ)
    e.update(SAN_ENV)
    if extra:
        e.update(extra)
    return e


def build_cli(outdir, san="asan"):
    """The eav tool linked the way bin/Makefile does it: tool objects + an (instrumented) shared libeav.so."""
    vdir = os.path.join(outdir, "cli-" + san)
    objs, flags = build_objects(vdir, san=san)
    so = os.path.join(vdir, "libeav.so")
    rc, out = run(["gcc"] + SAN_FLAGS[san] + ["-shared", "-Wl,-soname,libeav.so", "-o", so] + objs + ["-lidn2"])
    if rc != 0:
        raise BuildError("libeav.so link failed\n" + out)
    stock, _ = stock_make_defs()
    cflags = list(SAN_FLAGS[san]) + ["-std=c99", "-D_DEFAULT_SOURCE", "-D_XOPEN_SOURCE=700", "-D_SVID_SOURCE", "-D__EXTENSIONS__",
                                     "-I" + os.path.join(REPO, "include"), "-DHAVE_LIBIDN2"]
    tobjs = []
    for f in sorted(os.listdir(os.path.join(REPO, "bin"))):
        if f.endswith(".c"):
            o = os.path.join(vdir, "bin__" + f[:-2] + ".o")
            _compile("gcc", cflags, os.path.join("bin", f), o, REPO)
            tobjs.append(o)
    exe = os.path.join(vdir, "eav")
    rc, out = run(["gcc"] + SAN_FLAGS[san] + ["-o", exe] + tobjs + ["-L" + vdir, "-leav", "-lidn2"])
    if rc != 0:
        raise BuildError("eav tool link failed\n" + out)
    return exe, vdir
