"""Run batches of cases through a driver executable and parse the observation records."""
import json, os, re, subprocess, zlib
from . import build

HEX = bytes.hex


def hx(b):
    return b.hex() if b else "-"


class DriverCrash(Exception):
    """The driver process died (sanitizer report, signal, abort) while executing case `index`."""

    def __init__(self, index, line, returncode, stderr, records):
        Exception.__init__(self, "driver crashed at case %d rc=%s" % (index, returncode))
        self.index = index
        self.line = line
        self.returncode = returncode
        self.stderr = stderr
        self.records = records

    def signature(self):
        return crash_signature(self.stderr, self.returncode)


class DriverHang(Exception):
    """The driver did not finish within the watchdog; `index` = number of complete records produced."""

    def __init__(self, index, line, timeout, out):
        Exception.__init__(self, "driver watchdog after %ss at case ~%d" % (timeout, index))
        self.index, self.line, self.timeout, self.out = index, line, timeout, out


def _in_repo(path):
    if os.path.isabs(path):
        return path.startswith(build.REPO + "/")
    return path.split("/")[0] in ("src", "partial", "bin", "include") and os.path.exists(os.path.join(build.REPO, path))


def crash_signature(stderr, returncode):
    """Narrow, stable description of a sanitizer report: kind + innermost frame that lies in libeav sources."""
    kind = "exit%s" % returncode
    if "DRV-DECOY object-interference" in stderr:
        return "object-interference/second-untouched-object-changed-its-outcome"
    m = re.search(r"ERROR: (AddressSanitizer|LeakSanitizer|ThreadSanitizer): ([A-Za-z0-9_-]+)", stderr)
    if m:
        kind = m.group(2)
        if m.group(1) == "LeakSanitizer":
            kind = "leak"
    else:
        m = re.search(r"runtime error: ([a-z A-Z-]+?)( of| in| for|:|\d|$)", stderr)
        if m:
            kind = "ubsan-" + m.group(1).strip().replace(" ", "-")
        elif "Assertion" in stderr:
            kind = "assert"
        elif "DRV-ABORT" in stderr:
            m2 = re.search(r"DRV-ABORT case=\S+ stage=(\S*) sig=(\d+)", stderr)
            kind = "signal%s" % (m2.group(2) if m2 else "?")
    frame = "?"
    for m in re.finditer(r"#\d+ 0x[0-9a-f]+ in (\S+) (\S+?):(\d+)", stderr):
        fn, path = m.group(1), m.group(2)
        if _in_repo(path):
            frame = "%s@%s" % (fn, os.path.basename(path))
            break
    if frame == "?":
        m = re.search(r"SUMMARY: \w+Sanitizer: \S+ (\S+?):\d+(?::\d+)? in (\S+)", stderr)
        if m and _in_repo(m.group(1)):
            frame = "%s@%s" % (m.group(2), os.path.basename(m.group(1)))
    if frame == "?":
        m = re.search(r"stage=(\S+)", stderr)
        if m:
            frame = "stage:" + m.group(1)
    return "%s/%s" % (kind, frame)


def run_lines(exe, lines, env=None, timeout=900, parse=True, raw=False, wrapper=None):
    """Feed `lines` (list of str) to the driver; return list of parsed records (one per line).
    Raises DriverCrash if the process dies; TimeoutError on watchdog."""
    data = ("\n".join(lines) + "\nQ\n").encode("ascii")
    cmd = (wrapper or []) + [exe]
    if env is None:
        # verdicts must not depend on where an input lies in memory: a deterministic half of all batches runs with the inputs at
        # offsets 0..15 from the allocator's alignment (drivers honour VERIF_ALIGN; see drv/common.h)
        env = build.san_env()
        # a quarter of the batches has them in read-only pages that end right before an inaccessible page (VERIF_ALIGN=2)
        h = zlib.crc32(lines[0].encode("ascii", "replace")) & 3 if lines else 0
        if h == 1:
            env["VERIF_ALIGN"] = "1"
        elif h == 3:
            env["VERIF_ALIGN"] = "2"
        # the drivers adopt the environment's locale (setlocale(LC_ALL, "")): every other batch runs under C.UTF-8
        if lines and (zlib.crc32(lines[0].encode("ascii", "replace")) >> 2) & 1:
            env["LC_ALL"] = "C.UTF-8"
    try:
        p = subprocess.run(cmd, input=data, stdout=subprocess.PIPE, stderr=subprocess.PIPE,
                           env=env or build.san_env(), timeout=timeout)
    except subprocess.TimeoutExpired as e:
        out = (e.stdout or b"").decode("ascii", "replace")
        done = out.count("\n")
        raise DriverHang(done, lines[done] if done < len(lines) else None, timeout, out)
    out = p.stdout.decode("ascii", "replace")
    if raw:
        if p.returncode != 0:
            raise DriverCrash(-1, None, p.returncode, p.stderr.decode("utf-8", "replace"), out)
        return out
    recs = []
    olines = out.split("\n")
    if olines and olines[-1] == "":
        olines.pop()
    complete = olines if p.returncode == 0 else olines[:-1] if (olines and not out.endswith("\n")) else olines
    for l in complete:
        if parse:
            try:
                recs.append(json.loads(l))
            except ValueError:
                break
        else:
            recs.append(l)
    if p.returncode != 0 or len(recs) != len(lines):
        idx = len(recs)
        raise DriverCrash(idx, lines[idx] if idx < len(lines) else None, p.returncode,
                          p.stderr.decode("utf-8", "replace"), recs)
    return recs


def run_lines_resilient(exe, lines, env=None, timeout=900, max_crashes=50, wrapper=None):
    """Like run_lines, but on a crash records it, skips that case and continues with the rest.
    Returns (records_with_None_for_crashed, [ (index, signature, stderr) ... ])."""
    recs = [None] * len(lines)
    crashes = []
    start = 0
    while start < len(lines):
        try:
            r = run_lines(exe, lines[start:], env=env, timeout=timeout, wrapper=wrapper)
            recs[start:] = r
            break
        except DriverHang as h:
            # the watchdog alone decides nothing: re-run the suspected case alone; a second hang on one small case is a
            # violation candidate (library does not terminate), otherwise the batch is retried once and then inconclusive
            bad = start + h.index
            if bad >= len(lines):
                raise TimeoutError(str(h))
            try:
                single = run_lines(exe, [lines[bad]], env=env, timeout=60, wrapper=wrapper)
                # the single case terminates: slow machine or harness problem
                if getattr(run_lines_resilient, "_retried", None) == (exe, bad):
                    raise TimeoutError(str(h))
                run_lines_resilient._retried = (exe, bad)
                continue
            except DriverHang:
                crashes.append((bad, "hang/no-termination-within-60s", "watchdog: case did not terminate twice (batch %ss, alone 60s)" % h.timeout))
                for k, l in enumerate(h.out.split("\n")[:h.index]):
                    try:
                        recs[start + k] = json.loads(l)
                    except ValueError:
                        pass
                start = bad + 1
                continue
            except DriverCrash:
                start = bad   # let the normal path attribute the crash
                continue
        except DriverCrash as c:
            recs[start:start + c.index] = c.records[:c.index]
            bad = start + c.index
            if bad >= len(lines):
                # died at exit (e.g. leak report) after all cases answered
                crashes.append((-1, c.signature(), c.stderr))
                break
            crashes.append((bad, c.signature(), c.stderr))
            start = bad + 1
            if len(crashes) >= max_crashes:
                break
    return recs, crashes


# ---- record accessors -------------------------------------------------------------------------
MODES = ["822", "5321", "5322", "6531"]


def A_line(b, sections=7, modes=15, tlds=3, allow=None):
    return "A %x %x %x %s %s" % (sections, modes, tlds, "-" if allow is None else ("0x%x" % allow), hx(b))


class HL:
    """High-level observation [ret, errcode, msg, v4, v6, dom, rc, idn_rc (, lpart, domain)]"""
    __slots__ = ("ret", "err", "msg", "v4", "v6", "dom", "rc", "idn", "lpart", "domain", "raw")

    def __init__(self, a):
        self.raw = a
        self.ret, self.err, self.msg = a[0], a[1], (a[2] if len(a) > 2 else None)
        if len(a) > 3 and a[3] is not None:
            self.v4, self.v6, self.dom, self.rc, self.idn = a[3], a[4], a[5], a[6], a[7]
            self.lpart = a[8] if len(a) > 8 else None
            self.domain = a[9] if len(a) > 9 else None
        else:
            self.v4 = self.v6 = self.dom = self.rc = self.idn = None
            self.lpart = self.domain = None


class LL:
    __slots__ = ("v4", "v6", "dom", "rc", "idn", "lpart", "domain", "raw")

    def __init__(self, a):
        self.raw = a
        self.v4, self.v6, self.dom, self.rc, self.idn = a[0], a[1], a[2], a[3], a[4]
        self.lpart = a[5] if len(a) > 5 else None
        self.domain = a[6] if len(a) > 6 else None


class DOM:
    """[asc, u0, u0idn, u1, u1idn, special, tld_last|null, tld_whole, i2rc|null, i2out|null, lit|null]"""
    __slots__ = ("asc", "u0", "u0idn", "u1", "u1idn", "special", "tld_last", "tld_whole", "i2rc", "i2out", "lit")

    def __init__(self, a):
        (self.asc, self.u0, self.u0idn, self.u1, self.u1idn, self.special, self.tld_last, self.tld_whole,
         self.i2rc, i2, self.lit) = a
        self.i2out = bytes.fromhex(i2) if i2 is not None else None
