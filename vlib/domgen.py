"""Domain-half workloads and monitors shared by C04/C05 (and reused by C01, C12, C16, C17)."""
import collections, itertools, random
from . import oracle_domain as OD, gen, driver, core

MODES = driver.MODES


def new_part():
    return {"counters": collections.Counter(), "viol": [], "samples": [], "distinct": 0, "sets": {}}


# ------------------------------------------------------------------------------------------- C04
def host_pool_len():
    """G-LEN: label length 0-70 in first/middle/last position; total 240-260 with/without root dot(s)."""
    out = set()
    for n in range(0, 71):
        for lab in (b"a" * n, b"1" * n, (b"a-" * n)[:n], b"a" * max(0, n - 1) + b"-"[:1 if n else 0]):
            out.update([lab + b".bc", b"ab." + lab + b".cd", b"ab." + lab, lab, lab + b".", b"x." + lab + b"."])
    lab63 = b"a" * 63
    for total in range(236, 262):
        # labels of 63 + remainder
        parts = []
        left = total
        while left > 0:
            n = min(63, left)
            parts.append(b"b" * n)
            left -= n + 1
        d = b".".join(parts)
        d = d[:total] if len(d) >= total else d + b"c" * (total - len(d))
        if d.endswith(b"."):
            d = d[:-1] + b"c"
        for t in (b"", b".", b"..", b"..."):
            out.add(d + t)
        out.add(b"1" * 1 + d[1:])
    for n in list(range(60, 70)) + list(range(120, 131)):
        for unit in (b"a.", b"1.", b"a-b.", b"ab."):
            body = unit * n
            for tail in (b"c", b"com", b"", b"1"):
                d = body + tail
                out.add(d)
                out.add(d.rstrip(b".") if tail == b"" else d + b".")
    for pos in range(4):
        labs = [b"b" * 61] * 4
        labs[pos] = b"c" * 63
        out.add(b".".join(labs))
        out.add(b".".join(labs) + b".")
        labs[pos] = b"c" * 64
        out.add(b".".join(labs))
    for t in (b"a", b"a.b", b"1.2", b"1", b"1a", b"a-b"):
        for dots in range(0, 4):
            out.add(t + b"." * dots)
            out.add(b"." * dots + t)
    out.discard(b"")
    return sorted(out)


def host_pool_bytes():
    """G-BYTE: every byte 1..255 at first / after '.' / after '-' / last / before root dot / middle."""
    out = set()
    for c in range(1, 256):
        x = bytes([c])
        out.update([x + b"bc.de", b"ab." + x + b"cd", b"a-" + x + b"b.cd", b"ab.cd" + x, b"ab.cd" + x + b".",
                    b"ab" + x + b"cd.ef", x, b"a" + x, x + b".a", b"1." + x, b"a." + x + b".", b"xn--" + x + b"a.bc"])
    return sorted(out)


HOST_TOKENS = [b"a", b"1", b"-", b".", b"_", b"!"]
# every LDH character for itself (a rule keyed on one particular letter - 'x' after '0', 'e' between digits - is invisible when
# 'a' stands for all letters), plus two upper-case letters
FULL_LDH_TOKENS = [bytes([c]) for c in b"abcdefghijklmnopqrstuvwxyz0123456789-."] + [b"X", b"E"]


def numeric_looking_hosts():
    """Names whose labels are numbers to some other parser (inet_aton hex / octal, floats, huge integers) in 1-4 label shapes."""
    from . import words
    out = set()
    L = words.NUMERIC_LOOKING
    for a in L:
        out.update([a, a + b".", a + b".com", b"www." + a, a + b".0.0.1", b"1.2.3." + a, b"127." + a, a + b"." + a, b"1." + a + b".3.4",
                    a.upper(), a + b".1", b"1." + a])
        for b in L[:12]:
            out.add(a + b"." + b)
    # names that are all digits and dots only after the IDNA mapping (fullwidth digits, ideographic full stops): the rules are
    # judged on the converted name
    fw = lambda t: "".join(chr(0xff10 + ord(c) - 48) if c.isdigit() else c for c in t)
    for t in ("123.45", "1.2.3.4", "127.0.0.1", "10.0", "0", "2001.7", "1.2.3.4.5"):
        out.add(fw(t).encode("utf-8"))
        out.add(t.replace(".", "\u3002").encode("utf-8"))
        out.add((t[:-1] + fw(t[-1])).encode("utf-8"))
        out.add(fw(t).replace(".", "\uff0e").encode("utf-8"))
        out.add((fw(t) + ".com").encode("utf-8"))
    return sorted(x for x in out if x)


def w_host_enum(exe, tokens, k, prefix_idx, underscore, fns=("adom", "udom0")):
    part = new_part()
    prefix = b"".join(tokens[i] for i in prefix_idx)
    strings = [prefix + s for s in gen.enum_strings(tokens, k)]
    toks = ",".join(t.hex() for t in tokens)
    cnt = part["counters"]
    for fn in fns:
        line = "N %s %d %s %s -" % (fn, k, toks, driver.hx(prefix))
        try:
            rcs = gen.parse_packed(driver.run_lines(exe, [line], raw=True))
        except driver.DriverCrash as c:
            part["viol"].append(("%s/crash/%s" % (fn, c.signature()), {"op": line}, {"stderr": c.stderr[-1500:]}))
            continue
        for d, rc in zip(strings, rcs):
            if not d:
                continue
            exp = OD.host_accepts(d, underscore)
            got = rc == 0
            cnt["%s.%s" % (fn, "accept" if got else "reject")] += 1
            if not got:
                cnt["%s.err%d" % (fn, -rc)] += 1
            if fn == "adom":
                if got != exp:
                    k2 = "ascii/%s/%s" % ("accepts-invalid" if got else "rejects-valid",
                                          OD.host_reason(d, underscore) if got else "err%d" % -rc)
                    part["viol"].append((k2, {"domain": core.b2s(d), "hex": d.hex()},
                                         {"rc": rc, "reference": exp, "source": "enum"}))
            else:
                # one-directional (the IDN library may reject more): nothing violating the rules is accepted
                if got and not exp:
                    part["viol"].append(("6531/accepts-invalid/%s" % OD.host_reason(d, underscore),
                                         {"domain": core.b2s(d), "hex": d.hex()}, {"rc": rc, "source": "enum"}))
    part["distinct"] = sum(1 for s in strings if s)
    if strings:
        part["samples"].append({"source": "enum", "domain": core.b2s(strings[len(strings) // 2])})
    return part


def w_host_list(exe, domains, underscore, src, with_email=True):
    """D op (+ optionally the high-level call on x@D in all modes, tld off) against R-HOST."""
    part = new_part()
    cnt = part["counters"]
    domains = [d for d in domains if d and b"\x00" not in d]
    recs, crashes = driver.run_lines_resilient(exe, ["D " + driver.hx(d) for d in domains])
    for idx, sig, err in crashes:
        d = domains[idx] if idx >= 0 else b""
        part["viol"].append(("crash/%s" % sig, {"domain": core.b2s(d), "hex": d.hex()}, {"stderr": err[-1500:]}))
    for d, r in zip(domains, recs):
        if r is None:
            continue
        o = driver.DOM(r)
        exp = OD.host_accepts(d, underscore)
        got = o.asc == 0
        cnt["adom.%s" % ("accept" if got else "reject")] += 1
        if not got:
            cnt["adom.err%d" % -o.asc] += 1
        if got != exp:
            k2 = "ascii/%s/%s" % ("accepts-invalid" if got else "rejects-valid",
                                  OD.host_reason(d, underscore) if got else "err%d" % -o.asc)
            part["viol"].append((k2, {"domain": core.b2s(d), "hex": d.hex()}, {"rc": o.asc, "reference": exp, "source": src}))
        got6 = o.u0 == 0
        cnt["udom0.%s" % ("accept" if got6 else "reject")] += 1
        if got6:
            alabel = o.i2out
            if alabel is None:
                part["viol"].append(("6531/accepted-but-idn-conversion-fails", {"domain": core.b2s(d), "hex": d.hex()},
                                     {"idn2_rc": o.i2rc, "source": src}))
            elif not OD.host_accepts(alabel, underscore):
                part["viol"].append(("6531/accepts-invalid/%s" % OD.host_reason(alabel, underscore),
                                     {"domain": core.b2s(d), "hex": d.hex()},
                                     {"a_label_form": core.b2s(alabel), "source": src}))
            if max(d) < 0x80 and not exp:
                part["viol"].append(("6531/accepts-invalid-ascii/%s" % OD.host_reason(d, underscore),
                                     {"domain": core.b2s(d), "hex": d.hex()}, {"source": src}))
    if with_email:
        doms = [d for d in domains if b"@" not in d and d[:1] != b"["]
        # the domain verdict must not depend on the local part in front of it (1, 4, 64 bytes, quoted, non-ASCII)
        LPS = [b"x", b"user", b"a" * 64, b'"q.r"', b"first.last", "é".encode()]
        lps = [LPS[i % len(LPS)] for i in range(len(doms))]
        recs, crashes = driver.run_lines_resilient(exe, [driver.A_line(l + b"@" + d, sections=9 | 4, tlds=1) for l, d in zip(lps, doms)])
        for idx, sig, err in crashes:
            d = doms[idx] if idx >= 0 else b""
            part["viol"].append(("crash/%s" % sig, {"address": core.b2s(b"x@" + d)}, {"stderr": err[-1500:]}))
        for d, r, lp_ in zip(doms, recs, lps):
            if r is None:
                continue
            exp = OD.host_accepts(d, underscore)
            for mi, m in enumerate(MODES):
                h = r["hl"].get(str(mi * 2))
                if h is None or h[0] < 0:
                    continue
                if m != "6531" and max(lp_) >= 0x80:
                    continue            # a non-ASCII local part is (rightly) refused by the ASCII modes
                acc = bool(h[0])
                cnt["email.%s.%s" % (m, "accept" if acc else "reject")] += 1
                if m != "6531":
                    if acc != exp:
                        part["viol"].append(("%s/email/%s" % (m, "accepts-invalid" if acc else "rejects-valid"),
                                             {"mode": m, "address": core.b2s(lp_ + b"@" + d)},
                                             {"ret": h[0], "errcode": h[1], "reference": exp,
                                              "why": OD.host_reason(d, underscore), "source": src}))
                elif acc:
                    dom = r.get("dom")
                    al = bytes.fromhex(dom[9]) if dom and dom[9] is not None else None
                    if al is None or not OD.host_accepts(al, underscore):
                        part["viol"].append(("6531/email/accepts-invalid",
                                             {"mode": m, "address": core.b2s(b"x@" + d)},
                                             {"a_label_form": core.b2s(al) if al else None, "source": src}))
    part["distinct"] = len(set(domains))
    cnt["%s.domains" % src] += len(domains)
    if domains:
        part["samples"].append({"source": src, "domain": core.b2s(domains[len(domains) // 3][:100])})
    return part


# ------------------------------------------------------------------------------------------- C05
def _hexgroup(rng, w, upper):
    s = "".join(rng.choice("0123456789abcdef") for _ in range(w))
    return (s.upper() if upper else s).encode()


def ip_pool(tier, rng):
    """G-IP: grammar-directed literal contents (without brackets)."""
    out = set()
    # dotted quads: every octet value 0..300 in every position with 1-4 digits
    for pos in range(4):
        for v in range(0, 301):
            for w in range(1, 5):
                s = str(v).rjust(w, "0")
                if len(s) > 4:
                    continue
                q = ["10", "20", "30", "40"]
                q[pos] = s
                out.add(".".join(q).encode())
    big = ["256", "999", "1000", "65536", "2147483648", "4294967296", "4294967297", "4294967551", "18446744073709551617",
           "99999999999999999999", "00000000001", "0" * 40 + "7", "9" * 64]
    for pos in range(4):
        for v in big:
            q = ["10", "20", "30", "40"]
            q[pos] = v
            out.add(".".join(q).encode())
            out.add(("::ffff:" + ".".join(q)).encode())
    for g in ("fffff", "00000", "0" * 30 + "1", "f" * 9, "1" * 64):
        out.add(("1:2:3:4:5:6:7:" + g).encode())
        out.add((g + "::1").encode())
    for q in ("1.2.3", "1.2.3.4.5", "1..2.3", ".1.2.3.4", "1.2.3.4.", "1.2.3.", "1.2.3.4..", "1,2,3,4", "1.2.3.4 ", " 1.2.3.4",
              "1.2.3.a", "a.2.3.4", "1.2.3.-4", "+1.2.3.4", "0.0.0.0", "0.1.2.3", "00.1.2.3", "255.255.255.255",
              "256.1.1.1", "1.1.1.256", "1.2.3.4x", "0x1.2.3.4", "1.2.3.04", "1.2.3.0004", "1.2.3.00004", "999.1.1.1",
              "1.2.3.4]", "[1.2.3.4", "1.2.3.4:5", "127.0.0.1", "1234.1.1.1", "1.2.3.4/8"):
        out.add(q.encode())
    # IPv6 shapes
    tails = [None, b"1.2.3.4", b"192.0.2.128", b"192.168.100.200", b"255.255.255.255", b"0.1.2.3", b"1.2.3.256", b"1.2.3", b"1.2.3.4.", b"01.2.3.4", b"1.2.3.0004"]
    widths = [0, 1, 4, 5] if tier == "quick" else [0, 1, 2, 3, 4, 5]
    for nb in range(0, 9):
        for na in range(-1, 9):        # -1: no '::'
            for tail in tails:
                for w in widths:
                    for upper in (False, True):
                        gb = [_hexgroup(rng, w, upper) for _ in range(nb)]
                        ga = [_hexgroup(rng, w, upper) for _ in range(max(na, 0))]
                        if na < 0:
                            body = b":".join(gb)
                        else:
                            body = b":".join(gb) + b"::" + b":".join(ga)
                        if tail is not None:
                            if body and not body.endswith(b":"):
                                body += b":"
                            body += tail
                        out.add(body)
    # malformed IPv6
    for s in ("1:2:3:4:5:6:7:8:9", "1:2:3:4:5:6:7", "1:2:3:4:5:6:7:", ":1:2:3:4:5:6:7", "1::2::3", ":::", "::", ":", "1:2",
              "1::", "::1", "12345::", "1:2:3:4:5:6:7:12345", "g::1", "1::g", "1:2:3:4:5:6:7:8:", ":1:2:3:4:5:6:7:8",
              "1:2:3:4:5:6:7::", "::1:2:3:4:5:6:7", "1:2:3:4::5:6:7:8", "::ffff:1.2.3.4", "::ffff:1.2.3", "1:2:3:4:5:6:7:1.2.3.4",
              "1:2:3:4:5:1.2.3.4", "1:2:3:4:5:6:1.2.3.4", "::1.2.3.4", "1::1.2.3.4", "1.2.3.4::", "1.2.3.4:1::", "1:2:3:4:5:6:7:8 ",
              " 1:2:3:4:5:6:7:8", "1:2:3:4:5:6:7:8]", "fe80::1%eth0", "::1/128", "1:2:3:4:5:6:7:8.", "1:2:3:4:5:6:7.8",
              "0:0:0:0:0:0:0:0", "ffff:ffff:ffff:ffff:ffff:ffff:ffff:ffff", "::ffff:0.0.0.0", "::0.1.2.3"):
        out.add(s.encode())
    return sorted(out)


TAGS = [b"", b"IPv6:", b"ipv6:", b"IPV6:", b"IPv4:", b"IPv6", b"IPv6::", b"foo:", b"IPv6: ", b":", b"IPv7:", b"v6:", b"I:"]


def literal_domains(tier, rng):
    """Bracketed domains: tag x content, plus bracket/trailing-byte variants."""
    pool = ip_pool(tier, rng)
    out = set()
    for c in pool:
        out.add(b"[" + c + b"]")
        out.add(b"[IPv6:" + c + b"]")
    sample = rng.sample(pool, min(len(pool), 400 if tier == "quick" else 3000))
    core_good = [b"1.2.3.4", b"10.20.30.40", b"1:2:3:4:5:6:7:8", b"::1", b"1::", b"::ffff:1.2.3.4", b"2001:db8::1:1:1:1:1"]
    for c in sample + core_good:
        for t in TAGS:
            out.add(b"[" + t + c + b"]")
    for c in core_good:
        for t in (b"", b"IPv6:"):
            g = b"[" + t + c + b"]"
            for x in (b"a", b" ", b".", b"]", b"[", b":", b":b:c", b".com", b"\t", b"\xc3\xa9", b"1", b"@"):
                out.update([g + x, g[:-1] + x + b"]", g[:1] + x + g[1:], g[:-1], g + g, g[:-1] + b"]]", b"[" + g,
                            x + g if x not in (b"@",) else g])
    # every byte value at every position of the tag
    for body in (b"1:2:3:4:5:6:7:8", b"::1"):
        tag = b"IPv6:"
        for i in range(len(tag)):
            for c in range(1, 256):
                out.add(b"[" + tag[:i] + bytes([c]) + tag[i + 1:] + body + b"]")
    # tokens of other address syntaxes (second tag, 0x prefix, zone id, prefix length, ...) inserted at every position of valid literals,
    # and every byte value substituted / inserted at every position of two of them
    from . import words
    bases = [b"[1.2.3.4]", b"[IPv6:1:2:3:4:5:6:7:8]", b"[IPv6:2001:0db8::1]", b"[IPv6:::1]", b"[IPv6:::ffff:192.0.2.128]", b"[IPv6:1::2]",
             b"[2001:db8::a]", b"[IPv6:fe80::1]", b"[IPv6:0:0:0:0:0:0:0:0]", b"[255.255.255.255]"]
    for g in bases:
        for i in range(1, len(g)):
            for t in words.LITERAL_TOKENS:
                out.add(g[:i] + t + g[i:])
    for g in (b"[IPv6:2001:0db8:85a3::8a2e:0370:7334]", b"[IPv6:::ffff:10.0.0.1]") if tier == "quick" else bases:
        for i in range(1, len(g)):
            for c in range(1, 256):
                out.add(g[:i] + bytes([c]) + g[i + 1:])
                if c < 0x80:
                    out.add(g[:i] + bytes([c]) + g[i:])
    out.update([b"[", b"[]", b"[[]]", b"[]]", b"[ ]", b"[a]", b"[IPv6:]", b"[IPv6:::]", b"[::]", b"[:::]", b"[1.2.3.4",
                b"[aaaaaaaa]:b:c", b"[1.2.3.4]:1::", b"[12345678]", b"[1234567]", b"[123456789]", b"[1.1.1.1]", b"[1.1.1.]",
                b"[.1.1.1.1]", b"[1111111]", b"[IPv6:1]", b"[IPv6:1:2]"])
    return sorted(d for d in out if b"\x00" not in d and d[:1] == b"[")


LIT_TOKENS_Q = [b"1", b"0", b"a", b"g", b".", b":", b"]"]
LIT_TOKENS_T = [b"1", b"0", b"5", b"a", b"f", b"g", b".", b":", b"]", b"["]


def literal_enum(tokens, k, pre):
    for s in gen.enum_strings(tokens, k):
        yield pre + s + b"]"


def family_of(addr_body):
    """Family of the address actually present (tag stripped): dotted quad -> v4, else v6."""
    return "v4" if OD._quad_any(addr_body) is not None else "v6"


def w_literal(exe, domains, src):
    part = new_part()
    cnt = part["counters"]
    # the literal's verdict and family must not depend on the local part: shapes with ':', brackets, '@', dots, quotes
    LPS = [b"x", b'"a:b"', b'"[x]"', b'"q@[1.2.3.4]"', b"a.b", b'"IPv6:"', b"user"]
    lines = [driver.A_line(LPS[i % len(LPS)] + b"@" + d, sections=7, tlds=3) for i, d in enumerate(domains)]
    recs, crashes = driver.run_lines_resilient(exe, lines)
    for idx, sig, err in crashes:
        d = domains[idx] if idx >= 0 else b""
        part["viol"].append(("crash/%s" % sig, {"address": core.b2s(b"x@" + d)}, {"stderr": err[-1500:]}))
    for di, (d, r) in enumerate(zip(domains, recs)):
        if r is None:
            continue
        # public per-part validators on the bare address text: is_ipaddr is by definition is_ipv6 for texts with a colon, else is_ipv4
        lit = r["dom"][10] if r.get("dom") else None
        if lit is not None and d.endswith(b"]"):
            inner = d[1:-1]
            cnt["is_ipaddr.compared"] += 1
            want = lit[2] if b":" in inner else lit[1]
            if lit[0] != want:
                part["viol"].append(("is_ipaddr/disagrees-with-%s" % ("is_ipv6" if b":" in inner else "is_ipv4"),
                                     {"address_text": core.b2s(inner)}, {"is_ipaddr": lit[0], "is_ipv4": lit[1], "is_ipv6": lit[2], "source": src}))
        verdict, fam, why = OD.literal_verdict(d)
        cnt["verdict." + verdict] += 1
        for mi, m in enumerate(MODES):
            for t in (0, 1):
                for lvl in ("hl", "ll"):
                    a = r[lvl].get(str(mi * 2 + t))
                    if a is None:
                        continue
                    if lvl == "hl":
                        if a[0] < 0:
                            continue
                        acc, v4, v6, dom, rc = bool(a[0]), a[3], a[4], a[5], a[6]
                    else:
                        v4, v6, dom, rc = a[0], a[1], a[2], a[3]
                        acc = rc == 0
                    cnt["%s.%s" % (lvl, "accept" if acc else "reject")] += 1
                    wit = {"address": core.b2s(LPS[di % len(LPS)] + b"@" + d), "mode": m}
                    det = {"level": lvl, "tld_check": t, "rc": rc, "flags": [v4, v6, dom], "reference": verdict, "why": why,
                           "source": src}
                    if verdict == OD.MUST_REJECT and acc:
                        part["viol"].append(("only-if/%s" % why, wit, det))
                    elif verdict == OD.MUST_ACCEPT and not acc:
                        part["viol"].append(("if/%s/rc%d" % (why, rc), wit, det))
                    if acc and verdict != OD.MUST_REJECT:
                        want = fam
                        got = "v4" if (v4 and not v6) else "v6" if (v6 and not v4) else "none-or-both"
                        if dom or got != want:
                            part["viol"].append(("family/%s-reported-%s%s" % (want, got, "+domain" if dom else ""), wit, det))
    part["distinct"] = len(set(domains))
    cnt["%s.literals" % src] += len(domains)
    if domains:
        part["samples"].append({"source": src, "domain": core.b2s(domains[len(domains) // 3][:100])})
    return part


# ---- domains of 2 GiB and more (lengths that do not fit an int / wrap an unsigned int) ----------------------------------
HUGE = 1 << 31


def huge_host_cases(tier):
    """(mask, prefix, unit, reps, tail, suffix); every body is longer than 253 octets, hence no host name.  Mask bit 3 (mode 6531,
    which hands the domain to the IDN library: minutes and tens of GiB at this size) only in the thorough tier, once."""
    out = [(0x27, b"x@", b"a.", HUGE // 2, b"com", b""),
           (0x27, b"user@", b"a" * 63 + b".", 1 << 26, b"com", b"")]            # 2^32 + 3 bytes: a 32-bit length sees "com"
    if tier != "quick":
        out += [(0x27, b"x@", b"a", HUGE + 8, b"", b""), (0x27, b"x@", b"a", 2 * HUGE, b".com", b""),
                (0x27, b"x@", b"-", HUGE, b"", b""), (0x27, b"x@", b"1.", HUGE, b"2", b""),
                (0x2f, b"x@", b"a.", HUGE // 2, b"com", b"")]
    return out


def huge_literal_cases(tier):
    out = [(0x27, b"x@[", b"1.", HUGE // 2, b"1", b"]"), (0x27, b"x@[IPv6:", b"1:", HUGE // 2, b"1", b"]")]
    if tier != "quick":
        out += [(0x27, b"x@[", b"1", 2 * HUGE, b".2.3.4", b"]"), (0x27, b"x@[", b":", 2 * HUGE, b"", b"]"),
                (0x27, b"x@[IPv6:", b"1:2:3:4:", 1 << 29, b"5:6:7:8", b"]"), (0x27, b"x@[", b"1.2.3.4]", 1 << 29, b"", b""),
                (0x27, b"x@", b"[", HUGE, b"1.2.3.4]", b"")]
    return out


def huge_jobs(exe, cases, lanes=2):
    idn = [c for c in cases if c[0] & 8]
    rest = [c for c in cases if not c[0] & 8]
    jobs = [(w_huge_domains, (exe, rest[i::lanes])) for i in range(lanes) if rest[i::lanes]]
    if idn:
        jobs.insert(0, (w_huge_domains, (exe, idn)))
    return jobs


def w_huge_domains(exe, cases):
    """Worker: domains of 2 GiB and more, built by the driver's G op in an uninstrumented -O2 build, one after the other.  None of
    them is a domain: the direct validators must say no and the high-level call must reject with a consistent record."""
    part = new_part()
    cnt = part["counters"]
    for mask, pfx, unit, reps, tail, sfx in cases:
        line = "G %x %s %d %s %s %s" % (mask, driver.hx(unit), reps, driver.hx(tail), driver.hx(sfx), driver.hx(pfx))
        n = len(unit) * reps + len(tail)
        wit = {"prefix": core.b2s(pfx), "unit": core.b2s(unit), "repetitions": reps, "tail": core.b2s(tail), "suffix": core.b2s(sfx), "bytes": n}
        rec = None
        for attempt in (0, 1):
            try:
                rec = driver.run_lines(exe, [line], timeout=3000)[0]
                break
            except driver.DriverCrash as c:
                part["viol"].append(("huge/crash/%s" % c.signature(), wit, {"stderr": c.stderr[-1500:]}))
                break
            except driver.DriverHang:
                if attempt:
                    part["viol"].append(("huge/hang/no-termination-within-3000s-twice", wit, {"timeout_s": 3000}))
        if not isinstance(rec, dict) or "d" not in rec:
            if isinstance(rec, dict) and "skip" in rec:
                cnt["huge.skipped-no-memory"] += 1
            continue
        d = rec["d"]
        cnt["huge.strings"] += 1
        cnt["huge.bytes"] += n
        literal = pfx.endswith(b"[") or pfx.endswith(b"IPv6:")
        bad = []
        if not literal and d["ascii"] == 0:
            bad.append("is_ascii_domain")
        if "utf8" in d and not literal and d["utf8"][0] == 0:
            bad.append("is_utf8_domain")
        for k in ("v4", "v6", "ip"):
            if d[k]:
                bad.append("is_" + k)
        cnt["huge.direct-verdicts"] += 5 + ("utf8" in d)
        for fn in bad:
            part["viol"].append(("huge/%s/accepts-invalid" % fn, wit, {"record": d}))
        for mi, m in enumerate(MODES):
            h = (rec.get("hl") or {}).get(str(mi))
            if h is None or h[0] < 0:
                continue
            cnt["huge.email.%s" % m] += 1
            if h[0] != 0 or h[3] or h[4] or h[5] or h[6] >= 0:
                part["viol"].append(("%s/huge/email-%s" % (m, "accepted" if h[0] else "record-inconsistent"), dict(wit, mode=m),
                                     {"ret": h[0], "errcode": h[1], "flags": h[3:6], "rc": h[6]}))
    part["distinct"] = cnt["huge.strings"]
    return part
