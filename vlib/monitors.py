"""Monitors over full address records (driver op A, sections hl|ll|parts|idn2): C01, C12, C15, C16."""
import collections
from . import oracle_local as OL, oracle_domain as OD, driver, core
from .driver import MODES, DOM

LIT_DOMAIN_MINLEN = 9        # "[1.2.3.4]" - shorter bracketed domains are refused up-front by the library


class Cfg:
    def __init__(self, model, opts=(), extra=False, idnmsgs=None, allow_on=None):
        self.model = model
        self.opts = frozenset(opts)
        self.underscore = "LABELS_ALLOW_UNDERSCORE" in self.opts
        self.extra = extra
        self.idnmsgs = idnmsgs or {}
        self.allow_on = model.all_bits if allow_on is None else allow_on


def split(s, at):
    return s[:at], s[at + 1:]


def admissible(cfg, s, rec, m, t):
    """R-COMPOSE.  Returns (set of admissible error codes or None when the decision is not determined, class or None).
    Empty set + class None -> must be accepted with rc 0; empty set + class c -> policy decides."""
    M = cfg.model
    if len(s) == 0:
        return {M.E("EMAIL_EMPTY")}, None
    at = rec["at"]
    if at < 0 or at == len(s) - 1:
        return {M.E("DOMAIN_EMPTY")}, None
    L, D = split(s, at)
    S = set()
    if len(L) > 64:
        S.add(M.E("LPART_TOO_LONG"))
    lrc = rec["loc"][m]
    if lrc != 0:
        S.add(-lrc)
    dom = DOM(rec["dom"])
    cls = None
    if D[:1] == b"[":
        lit = dom.lit
        if lit is None:
            S.update([M.E("IPADDR_INVALID"), M.E("IPADDR_BRACKET_UNPAIR")])
            return S, None
        if not D.endswith(b"]"):
            S.add(M.E("IPADDR_INVALID"))
            return S, None
        inner = D[1:-1]
        if inner[:5].lower() == b"ipv6:":
            ok = lit[4] == 1
        else:
            ok = lit[1] == 1 or lit[2] == 1
        if not ok:
            S.add(M.E("IPADDR_INVALID"))
        elif len(D) < LIT_DOMAIN_MINLEN and not S:
            return None, None           # very short untagged IPv6 ("[::1]"): refused by a length pre-check; not judged
        return S, None
    if m < 3:
        if dom.asc != 0:
            S.add(-dom.asc)
        elif t:
            if dom.special:
                cls = M.class_number("SPECIAL")
            elif dom.tld_last is None:
                S.add(M.E("DOMAIN_NOT_FQDN"))
            elif dom.tld_last < 0:
                S.add(-dom.tld_last)
            else:
                cls = dom.tld_last
    else:
        u = dom.u1 if t else dom.u0
        if u < 0:
            S.add(-u)
        elif u > 0:
            cls = u
    return S, cls


def _hl(rec, m, t):
    a = rec["hl"].get(str(m * 2 + t))
    return None if a is None else driver.HL(a)


def _ll(rec, m, t):
    a = rec.get("ll", {}).get(str(m * 2 + t))
    return None if a is None else driver.LL(a)


def _wit(s, m, t):
    return {"address": core.b2s(s), "hex": s.hex(), "mode": MODES[m], "tld_check": t}


# ------------------------------------------------------------------------------------------------- C01
def mon_c01(cfg, s, rec, out, cnt):
    M = cfg.model
    for m in range(4):
        for t in (0, 1):
            h = _hl(rec, m, t)
            if h is None:
                continue
            if h.ret < 0:
                out.append(("setup-failed/%s" % MODES[m], _wit(s, m, t), {"setup_rc": h.err}))
                continue
            cnt["hl.%s" % ("accept" if h.ret else "reject")] += 1
            S, cls = admissible(cfg, s, rec, m, t)
            if S is None:
                cnt["undetermined"] += 1
            else:
                if S:
                    exp_acc = False
                    exp_codes = S
                elif cls is None:
                    exp_acc, exp_codes = True, {0}
                else:
                    cname = M.tldtype_name.get(cls)
                    if cname in ("UNUSED", "MAX", None):
                        exp_acc, exp_codes = None, None
                    else:
                        exp_acc = bool(cfg.allow_on & M.class_bit(cname))
                        exp_codes = {0} if exp_acc else {M.class_errcode(cname)}
                if exp_acc is not None:
                    if bool(h.ret) != exp_acc:
                        out.append(("decision/%s/%s" % (MODES[m], "accepts" if h.ret else "rejects") +
                                    ("/tld" if t else ""), _wit(s, m, t),
                                    {"ret": h.ret, "errcode": h.err, "composition": sorted(S), "class": cls}))
                    elif h.err not in exp_codes:
                        out.append(("errcode/%s/%s-not-in-composition" % (MODES[m], M.eeav_name.get(h.err, h.err)),
                                    _wit(s, m, t), {"errcode": h.err, "composition": sorted(exp_codes)}))
            # always-rejected shapes
            if (len(s) == 0 or b"@" not in s or s.startswith(b"@") or s.endswith(b"@")) and h.ret:
                out.append(("always-rejected-shape-accepted/%s" % MODES[m], _wit(s, m, t), {}))
            # wiring: eav_is_email(mode m) == is_m_email
            l = _ll(rec, m, t)
            if l is not None:
                cnt["ll.compared"] += 1
                if [h.v4, h.v6, h.dom, h.rc, h.idn] != [l.v4, l.v6, l.dom, l.rc, l.idn]:
                    out.append(("wiring/%s-differs-from-is_%s_email" % (MODES[m], MODES[m]), _wit(s, m, t),
                                {"high_level": h.raw[3:8], "low_level": l.raw[:5]}))
    late = rec.get("late")
    if late:
        for k, v in late.items():
            m, o = int(k[0]), int(k[1])
            h = _hl(rec, m, 0)
            if h is None or h.ret < 0:
                continue
            cnt["late.compared"] += 1
            if [h.ret, h.err] != v:
                out.append(("mode/rfc-changed-after-setup-is-applied/%s->%s" % (MODES[m], MODES[o]), _wit(s, m, 0),
                            {"confirmed_mode_result": [h.ret, h.err], "observed": v}))


    sw = rec.get("sw")
    if sw:
        for k, v in sw.items():
            m1, m2 = int(k[0]), int(k[1])
            h = _hl(rec, m2, 0)
            if h is None or h.ret < 0:
                continue
            cnt["switch.compared"] += 1
            if [h.ret, h.err] != v:
                out.append(("mode/second-setup-not-applied/%s->%s" % (MODES[m1], MODES[m2]), _wit(s, m2, 0),
                            {"fresh_object_in_mode_%s" % MODES[m2]: [h.ret, h.err], "after_setup_%s_then_%s" % (MODES[m1], MODES[m2]): v}))


# ------------------------------------------------------------------------------------------------- C12
def mon_c12(cfg, s, rec, out, cnt):
    M = cfg.model
    at = rec.get("at", -1)
    pure = len(s) > 0 and max(s) < 0x80
    L = s[:at] if at >= 0 else s
    lp_codes = {v for k, v in M.eeav.items() if k.startswith("EEAV_LPART_")}
    for t in (0, 1):
        hs = [_hl(rec, m, t) for m in range(4)]
        if any(h is None or h.ret < 0 for h in hs):
            continue
        # R1
        # (a build with RFC6531_FOLLOW_RFC20 legitimately differs in mode 6531 on the seven RFC 20 characters: those local parts
        #  are then left to C17)
        if pure and at >= 0 and b'"' not in L and b"\\" not in L and not (
                "RFC6531_FOLLOW_RFC20" in cfg.opts and any(c in OL.RFC20 for c in L)):
            cnt["R1.checked"] += 1
            base = (hs[0].ret, hs[0].err)
            for m in (1, 2):
                if (hs[m].ret, hs[m].err) != base:
                    out.append(("R1/%s-differs-from-822" % MODES[m], _wit(s, m, t),
                                {"822": list(base), MODES[m]: [hs[m].ret, hs[m].err]}))
            if (hs[3].ret, hs[3].err) != base:
                if hs[3].err == M.E("IDN_ERROR") and hs[0].err not in lp_codes:
                    cnt["R1.idn-exemption"] += 1
                else:
                    out.append(("R1/6531-differs-from-822", _wit(s, 3, t),
                                {"822": list(base), "6531": [hs[3].ret, hs[3].err]}))
        # R2
        cnt["R2.checked"] += 1
        if hs[1].ret and not hs[0].ret:
            out.append(("R2/accepted-5321-rejected-822", _wit(s, 0, t), {"822": [hs[0].ret, hs[0].err]}))
        # R3: fixed D, L valid in all three ASCII modes -> identical domain verdict, class, flags, errcode
        if at >= 0 and rec.get("loc") and len(L) <= 64 and all(rec["loc"][m] == 0 for m in range(3)):
            cnt["R3.checked"] += 1
            base = hs[0].raw[0:2] + hs[0].raw[3:8]
            for m in (1, 2):
                cur = hs[m].raw[0:2] + hs[m].raw[3:8]
                if cur != base:
                    out.append(("R3/%s-domain-verdict-differs-from-822" % MODES[m], _wit(s, m, t),
                                {"822": base, MODES[m]: cur}))


# ------------------------------------------------------------------------------------------------- C15
WSB = b" \t\r\n"


def _labels_info(host):
    body = host[:-1] if host.endswith(b".") and len(host) > 1 else host
    return body, body.split(b".")


def truth(cfg, name, m, t, s, rec):
    """Does the condition named by error code `name` hold of the input?  True / False / None (not judged)."""
    M = cfg.model
    at = rec.get("at", -1)
    mode = MODES[m]
    if name == "EMAIL_EMPTY":
        return len(s) == 0
    if name == "DOMAIN_EMPTY":
        if at < 0 or at == len(s) - 1:
            return True
        # mode 6531 judges the A-label form: a domain made only of code points that IDNA maps to nothing converts to ""
        if mode == "6531" and rec.get("dom") and s[at + 1:at + 2] != b"[":
            d6 = DOM(rec["dom"])
            return d6.i2rc == 0 and d6.i2out == b""
        return False
    if at < 0:
        return False
    L, D = split(s, at)
    like5322 = mode == "5322" or (mode == "6531" and "RFC6531_FOLLOW_RFC5322" in cfg.opts)
    if name.startswith("LPART_"):
        if name == "LPART_TOO_LONG":
            return len(L) > 64
        if name == "LPART_EMPTY":
            return len(L) == 0
        if len(L) and OL.accepts(mode, L, cfg.opts):
            return False                     # a local-part error only if the local part really is invalid
        if name == "LPART_NOT_ASCII":
            return mode != "6531" and any(c >= 0x80 for c in L)
        if name == "LPART_CTRL_CHAR":
            return any(c < 0x20 or c == 0x7f for c in L)
        if name == "LPART_SPECIAL":
            sp = b'()<>@,;:\\".[] '
            if mode == "6531" and "RFC6531_FOLLOW_RFC20" in cfg.opts:
                sp += OL.RFC20
            return any(c in sp for c in L)
        if name in ("LPART_MISPLACED_QUOTE", "LPART_UNQUOTED"):
            return b'"' in L
        if name == "LPART_TOO_MANY_DOTS":
            return b".." in L
        if name == "LPART_MISPLACED_DOT":
            return L.startswith(b".") or L.endswith(b".") or b".." in L
        if name == "LPART_UNQUOTED_FWS":
            return like5322 and any(c in WSB for c in L)
        if name == "LPART_INVALID_FOLDING":
            return mode == "822" and b"\r" in L
        if name == "LPART_INVALID_UTF8":
            return mode == "6531" and OL.utf8_symbols(L) is None
        return None
    dom = DOM(rec["dom"]) if rec.get("dom") else None
    if name.startswith("IPADDR_"):
        if D[:1] != b"[":
            return False
        if name == "IPADDR_BRACKET_UNPAIR":
            return b"]" not in D
        # "ip-addr is incorrect" is untrue of a literal the statement of C05 obliges every mode to accept
        return OD.literal_verdict(D)[0] != OD.MUST_ACCEPT
    if dom is None:
        return None
    if name == "IDN_ERROR":
        return mode == "6531" and D[:1] != b"[" and dom.i2rc not in (0, None)
    # host-name conditions: judged on D (ASCII modes) or on the A-label form libidn2 produced (mode 6531)
    if D[:1] == b"[":
        return False
    host = D
    if mode == "6531":
        host = dom.i2out
        if host is None:
            return False
    body, labels = _labels_info(host)
    if name == "DOMAIN_LABEL_TOO_LONG":
        return any(len(l) > 63 for l in labels)
    if name == "DOMAIN_MISPLACED_HYPHEN":
        return any(l[:1] == b"-" or l[-1:] == b"-" for l in labels)
    if name == "DOMAIN_MISPLACED_DELIMITER":
        return any(len(l) == 0 for l in labels)
    if name == "DOMAIN_INVALID_CHAR":
        ok = set(b"abcdefghijklmnopqrstuvwxyzABCDEFGHIJKLMNOPQRSTUVWXYZ0123456789-.")
        if cfg.underscore:
            ok.add(0x5f)
        return any(c not in ok for c in host)
    if name == "DOMAIN_TOO_LONG":
        return len(body) > 253
    if name == "DOMAIN_NUMERIC":
        return all(c in b"0123456789." for c in host)
    if name == "DOMAIN_NOT_FQDN":
        return bool(t) and b"." not in host
    if name.startswith("TLD_"):
        if not t or not OD.host_accepts(host, cfg.underscore):
            return False
        if host.endswith(b"."):
            return None                      # root dot: outside C07/C09
        cls = M.tld_class_of(host)
        if name == "TLD_INVALID":
            return cls == "INVALID"
        return cls == name[4:]
    return None


def mon_c15(cfg, s, rec, out, cnt):
    M = cfg.model
    for m in range(4):
        for t in (0, 1):
            h = _hl(rec, m, t)
            if h is None or h.ret < 0:
                continue
            cnt["calls"] += 1
            name = M.eeav_name.get(h.err)
            cnt["code.%s" % (name or h.err)] += 1
            if (h.ret == 1) != (h.err == 0) or h.ret not in (0, 1):
                out.append(("ret-vs-errcode", _wit(s, m, t), {"ret": h.ret, "errcode": h.err}))
                continue
            if h.ret == 1:
                continue
            if name is None:
                out.append(("errcode-out-of-range/%s" % h.err, _wit(s, m, t), {"errcode": h.err}))
                continue
            short = name[5:]
            if not h.msg:
                out.append(("empty-message/%s" % short, _wit(s, m, t), {"errcode": h.err, "message": h.msg}))
                continue
            # the code corresponds to the failing per-part validator
            S, cls = admissible(cfg, s, rec, m, t)
            if S is not None:
                adm = set(S)
                if not adm and cls is not None:
                    cname = M.tldtype_name.get(cls)
                    if cname not in ("UNUSED", "MAX", None):
                        adm = {M.class_errcode(cname)}
                if h.err not in adm:
                    out.append(("code-not-from-failing-validator/%s/%s" % (MODES[m], short), _wit(s, m, t),
                                {"errcode": h.err, "validators_say": sorted(adm)}))
            # the code names a condition that holds
            tr = truth(cfg, short, m, t, s, rec)
            if tr is False:
                out.append(("untrue-code/%s/%s" % (MODES[m], short), _wit(s, m, t), {"errcode": h.err, "message": h.msg}))
            elif tr is None:
                cnt["truth.not-judged"] += 1
            # the message names a condition that holds
            if short == "IDN_ERROR":
                want = cfg.idnmsgs.get(str(h.idn))
                dom = DOM(rec["dom"]) if rec.get("dom") else None
                if want is not None and h.msg != want:
                    out.append(("idn-message-mismatch", _wit(s, m, t), {"idn_rc": h.idn, "message": h.msg, "library_message": want}))
                if dom is not None and dom.i2rc != h.idn:
                    out.append(("idn-code-mismatch", _wit(s, m, t), {"reported": h.idn, "direct_call": dom.i2rc}))
            else:
                mname = PINNED.get(h.msg)
                if mname is None:
                    cnt["message.unknown-text"] += 1
                elif mname != name:
                    tr2 = truth(cfg, mname[5:], m, t, s, rec)
                    if tr2 is False:
                        out.append(("untrue-message/%s-says-%s" % (short, mname[5:]), _wit(s, m, t),
                                    {"errcode": h.err, "message": h.msg}))
                    else:
                        cnt["message.other-code-but-true"] += 1


from .model import PINNED_MESSAGES as PINNED  # noqa: E402


# ------------------------------------------------------------------------------------------------- C16
def mon_c16(cfg, s, rec, out, cnt):
    M = cfg.model
    at = rec.get("at", -1)
    syntax_codes = {v for k, v in M.eeav.items() if k.startswith(("EEAV_LPART_", "EEAV_DOMAIN_", "EEAV_IPADDR_", "EEAV_EMAIL_"))
                    and k != "EEAV_DOMAIN_NOT_FQDN"} | {M.E("IDN_ERROR")}
    for m in range(4):
        for t in (0, 1):
            for lvl in ("hl", "ll"):
                if lvl == "hl":
                    h = _hl(rec, m, t)
                    if h is None or h.ret < 0:
                        continue
                    acc = bool(h.ret)
                    r = h
                else:
                    r = _ll(rec, m, t)
                    if r is None:
                        continue
                    acc = None
                cnt["records"] += 1
                nflags = int(bool(r.v4)) + int(bool(r.v6)) + int(bool(r.dom))
                w = _wit(s, m, t)
                d = {"level": lvl, "flags": [r.v4, r.v6, r.dom], "rc": r.rc}
                if nflags > 1:
                    out.append(("more-than-one-flag", w, d))
                L, D = split(s, at) if at >= 0 else (s, b"")
                # form of the domain part
                if D[:1] == b"[":
                    inner = D[1:-1]
                    if inner[:5].lower() == b"ipv6:":
                        inner = inner[5:]
                    form = "v4" if OD._quad_any(inner) is not None else "v6"
                else:
                    form = "dom"
                got = "v4" if r.v4 else "v6" if r.v6 else "dom" if r.dom else "none"
                accepted_syntax = (r.rc >= 0)
                if acc or (lvl == "ll" and r.rc == 0):
                    if nflags != 1 or got != form:
                        out.append(("accepted/flag-%s-for-%s" % (got, form), w, d))
                # syntactically invalid half -> no flag
                S, cls = admissible(cfg, s, rec, m, 0) if at >= 0 and at < len(s) - 1 else ({1}, None)
                if S is not None and S and nflags:
                    out.append(("syntax-invalid/flag-%s-set" % got, w, dict(d, composition=sorted(S))))
                if r.rc < 0 and -r.rc in syntax_codes and nflags:
                    out.append(("syntax-error-code/flag-%s-set" % got, w, d))
                # result code
                if not t and r.rc > 0:
                    out.append(("rc-positive-without-tld-check", w, d))
                if lvl == "hl":
                    if acc and not t and r.rc != 0:
                        out.append(("accepted-without-tld/rc-nonzero", w, d))
                    if acc and t and form == "dom":
                        S1, cls1 = admissible(cfg, s, rec, m, 1)
                        if S1 is not None and not S1 and cls1 is not None and r.rc != cls1:
                            out.append(("accepted-with-tld/rc-not-class", w, dict(d, cls=cls1)))
                    if acc and form != "dom" and r.rc != 0:
                        out.append(("accepted-literal/rc-nonzero", w, d))
                    if not acc and r.rc == 0:
                        out.append(("rejected/rc-zero", w, d))
                    if not acc and r.rc > 0 and not t:
                        out.append(("rejected/rc-positive-without-tld", w, d))
                # EAV_EXTRA
                if cfg.extra:
                    lp = bytes.fromhex(r.lpart) if r.lpart is not None else None
                    dm = bytes.fromhex(r.domain) if r.domain is not None else None
                    cnt["extra.records"] += 1
                    if (acc or (lvl == "ll" and r.rc == 0 and at > 0)):
                        wantd = D[1:-1] if form != "dom" else D
                        if lp != L or dm != wantd:
                            out.append(("extra/halves-not-reproduced", w,
                                        {"lpart": core.b2s(lp) if lp is not None else None,
                                         "domain": core.b2s(dm) if dm is not None else None}))
                    S0, _ = admissible(cfg, s, rec, m, 0) if at >= 0 and at < len(s) - 1 else ({1}, None)
                    if S0 is not None and S0 and (lp is not None or dm is not None):
                        out.append(("extra/set-on-syntax-invalid", w,
                                    {"lpart": core.b2s(lp) if lp is not None else None,
                                     "domain": core.b2s(dm) if dm is not None else None, "composition": sorted(S0)}))


MONITORS = {"C01": mon_c01, "C12": mon_c12, "C15": mon_c15, "C16": mon_c16}
