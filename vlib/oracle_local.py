"""R-LOCAL: reference recognisers for local parts, written from the statements of C02/C03/C17.

Two independent implementations:
  * dfa_accepts(mode, b, opts)  - explicit automaton over byte classes (tables are also used to derive
                                  transition covers / conformance suites);
  * rx_accepts(mode, b, opts)   - tokenising regular expressions (word *("." word)).
They are cross-checked against each other on every enumerated string; a disagreement is a harness failure
(oracle bug), never an alarm against the library.

mode in {"822","5321","5322","6531"}; opts = frozenset of option macro names the build was compiled with
({"RFC6531_FOLLOW_RFC20","RFC6531_FOLLOW_RFC5322"} matter here).
"""
import re

SPECIALS = b'()<>@,;:\\".[]'
RFC20 = b"#^`{|}~"
WS = b" \t\r\n"


def byte_class(c):
    """Class letter of an ASCII byte / 'h' for >=0x80 / 'z' for NUL."""
    if c == 0:
        return "z"
    if c >= 0x80:
        return "h"
    if c == 0x22:
        return "q"
    if c == 0x5c:
        return "b"
    if c == 0x2e:
        return "d"
    if c == 0x20:
        return "s"
    if c == 0x09:
        return "t"
    if c == 0x0d:
        return "c"
    if c == 0x0a:
        return "l"
    if c < 0x20 or c == 0x7f:
        return "x"
    if c in b"()<>@,;:[]":
        return "p"
    if c in RFC20:
        return "r"
    return "a"


CLASS_REP = {"a": b"a", "r": b"#", "q": b'"', "b": b"\\", "d": b".", "s": b" ", "t": b"\t", "c": b"\r",
             "l": b"\n", "x": b"\x01", "p": b"(", "h": b"\xff", "u": "é".encode("utf-8")}
ASCII_CLASSES = "arqbdstclxp"

# ---- automaton ---------------------------------------------------------------------------------
# states: S (word start), A (in atom), Q0/Q1 (in quotes; 5322 distinguishes "previous raw byte is DQUOTE or
# whitespace" = Q0), E (after backslash in quotes), W (5322: pending whitespace that needs DQUOTE/whitespace next),
# F1/F2 (822: after CR, after CR LF), Z (after closing quote), X (dead).
ACCEPTING = {"A", "Z"}


def step(mode, st, cl, opts=frozenset()):
    """Next state for class letter cl ('u' = one well-formed non-ASCII character, mode 6531 only)."""
    rfc20 = mode == "6531" and "RFC6531_FOLLOW_RFC20" in opts
    like5322 = mode == "5322" or (mode == "6531" and "RFC6531_FOLLOW_RFC5322" in opts)
    if st == "X" or cl in ("z", "h"):
        return "X"
    if cl == "u" and mode != "6531":
        return "X"
    ctrl = cl in "tclx"
    if ctrl and (mode == "5321" or (mode == "6531" and not like5322)):
        return "X"                       # no control character anywhere
    if st == "S":
        if cl == "q":
            return "Q0"
        if cl == "a" or cl == "u" or (cl == "r" and not rfc20):
            return "A"
        return "X"
    if st == "A":
        if cl == "d":
            return "S"
        if cl == "a" or cl == "u" or (cl == "r" and not rfc20):
            return "A"
        return "X"
    if st == "Z":
        return "S" if cl == "d" else "X"
    if st == "E":
        if cl == "u":
            return "X"                   # a backslash escapes ASCII only
        if mode in ("5321", "6531") and not like5322:
            return "Q1" if not ctrl else "X"
        # 822 / 5322(-like): any ASCII
        return "Q0" if cl in "qstcl" else "Q1"
    if st in ("Q0", "Q1"):
        if cl == "q":
            return "Z"
        if cl == "b":
            return "E"
        if mode == "822":
            if cl == "c":
                return "F1"
            return "Q1"                  # every other ASCII incl. bare LF, HT, SP, controls
        if like5322:
            if cl in "stcl":
                return "Q0" if st == "Q0" else "W"
            return "Q1"                  # printable, non-whitespace controls, non-ASCII (6531)
        # 5321 / 6531 default: printable ASCII (controls already rejected) or non-ASCII
        return "Q1"
    if st == "W":
        if cl == "q":
            return "Z"
        if cl in "stcl":
            return "Q0"
        return "X"
    if st == "F1":
        return "F2" if cl == "l" else "X"
    if st == "F2":
        return "Q1" if cl in "st" else "X"
    raise AssertionError(st)


STATES = ["S", "A", "Q0", "Q1", "E", "W", "F1", "F2", "Z", "X"]


def utf8_symbols(b):
    """Strict UTF-8 decode into a list of class letters, or None if malformed."""
    try:
        s = b.decode("utf-8")            # strict: no overlongs, surrogates, > U+10FFFF, stray/missing continuation
    except UnicodeDecodeError:
        return None
    return [byte_class(ord(ch)) if ord(ch) < 0x80 else "u" for ch in s]


def dfa_run(mode, b, opts=frozenset()):
    if mode == "6531":
        syms = utf8_symbols(b)
        if syms is None:
            return "X"
    else:
        syms = [byte_class(c) for c in b]
    st = "S"
    for cl in syms:
        st = step(mode, st, cl, opts)
        if st == "X":
            return "X"
    return st


def dfa_run_repeated(mode, unit, reps, tail, opts=frozenset()):
    """State after unit x reps + tail, without materialising the string: the unit's effect on the automaton is a function on the
    (few) states, iterated with cycle detection.  In mode 6531 unit and tail must each be whole UTF-8 sequences or the string is
    ill-formed as a whole only if one of them is (callers keep characters inside unit / tail)."""
    if mode == "6531":
        us, ts = utf8_symbols(unit), utf8_symbols(tail)
        if (us is None and reps > 0) or ts is None:
            return "X"
        us = us or []
    else:
        us, ts = [byte_class(c) for c in unit], [byte_class(c) for c in tail]

    def run(st, syms):
        for cl in syms:
            if st == "X":
                return "X"
            st = step(mode, st, cl, opts)
        return st
    st = "S"
    seen = {}
    k = 0
    while k < reps:
        if st in seen:
            period = k - seen[st]
            k += ((reps - k) // period) * period
            seen = {}
            if k >= reps:
                break
        seen[st] = k
        st = run(st, us)
        k += 1
    return run(st, ts)


def accepts_repeated(mode, unit, reps, tail, opts=frozenset()):
    if len(unit) * reps + len(tail) == 0:
        return False
    return dfa_run_repeated(mode, unit, reps, tail, opts) in ACCEPTING


def dfa_accepts(mode, b, opts=frozenset()):
    if len(b) == 0:
        return False
    return dfa_run(mode, b, opts) in ACCEPTING


# ---- regular-expression recogniser ------------------------------------------------------------------
def _cls(chars):
    return "".join("\\x%02x" % c for c in chars)


_ATOM_ALL = bytes(c for c in range(0x21, 0x7f) if c not in SPECIALS)
_ATOM_20 = bytes(c for c in _ATOM_ALL if c not in RFC20)
_NOWSCTL = bytes(list(range(1, 9)) + [0x0b, 0x0c] + list(range(0x0e, 0x20)) + [0x7f])
_QTEXT_PRINT = bytes(c for c in range(0x21, 0x7f) if c not in b'"\\')

_RX = {}


def _compile(mode, opts):
    key = (mode, opts)
    if key in _RX:
        return _RX[key]
    rfc20 = mode == "6531" and "RFC6531_FOLLOW_RFC20" in opts
    like5322 = mode == "5322" or (mode == "6531" and "RFC6531_FOLLOW_RFC5322" in opts)
    nonascii = "\\x80-\\U0010ffff" if mode == "6531" else ""
    atom = "[%s%s]+" % (_cls(_ATOM_20 if rfc20 else _ATOM_ALL), nonascii)
    if mode == "822":
        q = '"(?:[\\x01-\\x0c\\x0e-\\x21\\x23-\\x5b\\x5d-\\x7f]|\\\\[\\x01-\\x7f]|\\r\\n[ \\t])*"'
    elif like5322:
        ws = " \\t\\r\\n"
        # the two whitespace alternatives are mutually exclusive (no ambiguity -> no exponential backtracking)
        q = ('"(?:[%s%s%s]|\\\\[\\x01-\\x7f]|(?<=["%s])[%s]|(?<!["%s])[%s](?=["%s]))*"'
             % (_cls(_QTEXT_PRINT), _cls(_NOWSCTL), nonascii, ws, ws, ws, ws, ws))
    else:   # 5321, 6531 default
        q = '"(?:[\\x20%s%s]|\\\\[\\x20-\\x7e])*"' % (_cls(_QTEXT_PRINT), nonascii)
    word = "(?:%s|%s)" % (atom, q)
    pat = "%s(?:\\.%s)*" % (word, word)
    rx = re.compile(pat, re.DOTALL)
    _RX[key] = rx
    return rx


def rx_accepts(mode, b, opts=frozenset()):
    if mode == "6531":
        try:
            s = b.decode("utf-8")
        except UnicodeDecodeError:
            return False
    else:
        if any(c >= 0x80 or c == 0 for c in b):
            return False
        s = b.decode("latin-1")
    if "\x00" in s:
        return False
    return _compile(mode, opts).fullmatch(s) is not None


class OracleDisagreement(Exception):
    pass


def accepts(mode, b, opts=frozenset()):
    a = dfa_accepts(mode, b, opts)
    r = rx_accepts(mode, b, opts)
    if a != r:
        raise OracleDisagreement("R-LOCAL implementations disagree on mode=%s %r: dfa=%s rx=%s" % (mode, b, a, r))
    return a


# ---- covers derived from the tables ------------------------------------------------------------------
def classes_for(mode):
    return ASCII_CLASSES + ("u" if mode == "6531" else "h")


def reachable(mode, opts=frozenset()):
    """BFS over the automaton: state -> shortest class word reaching it, and the set of (state, class) transitions."""
    access = {"S": ""}
    order = ["S"]
    trans = {}
    i = 0
    while i < len(order):
        st = order[i]
        i += 1
        for cl in classes_for(mode):
            nx = step(mode, st, cl, opts)
            trans[(st, cl)] = nx
            if nx not in access:
                access[nx] = access[st] + cl
                order.append(nx)
    return access, trans


def word_bytes(clsword):
    return b"".join(CLASS_REP[c] for c in clsword)


def conformance_suite(mode, opts=frozenset(), extra=1):
    """W-method style suite: (transition cover) . Sigma^{<=extra} . W, with W a fixed distinguishing set."""
    access, trans = reachable(mode, opts)
    W = ["", "a", ".a", '"', 'a"', '\\"', ' "', '\n "', 'a.a', '"a"', '\\a"', ' a"', '\r\n "']
    sig = classes_for(mode)
    mids = [""]
    for _ in range(extra):
        mids = mids + [m + c for m in mids for c in sig if len(m + c) <= extra]
    mids = sorted(set(mids))
    out = set()
    for (st, cl), nx in trans.items():
        if st == "X":
            continue
        base = access[st] + cl
        for m in mids:
            for w in W:
                out.add(word_bytes(base + m) + w.encode())
    return sorted(out)
