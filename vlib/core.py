"""Verdict bookkeeping: violations, known findings, replay files, evidence files, parallel map."""
import collections, json, multiprocessing, os, re, sys, time, traceback, hashlib

VERIF = os.path.dirname(os.path.dirname(os.path.abspath(__file__)))
KNOWN_FILE = os.path.join(VERIF, "known_findings.json")
NPROC = int(os.environ.get("VERIF_JOBS", "0")) or min(16, os.cpu_count() or 4)


class Inconclusive(Exception):
    """Harness-side failure: nothing is concluded about the property (exit 2)."""


def load_known():
    try:
        with open(KNOWN_FILE) as f:
            return json.load(f).get("findings", [])
    except FileNotFoundError:
        return []


def b2s(b):
    """Readable rendering of a byte string for samples/witnesses."""
    if isinstance(b, str):
        return b
    out = []
    for c in b:
        if c == 0x5c:
            out.append("\\\\")
        elif 0x20 <= c < 0x7f:
            out.append(chr(c))
        else:
            out.append("\\x%02x" % c)
    return "".join(out)


CURRENT_REPORT = None


class Report:
    def __init__(self, prop, tier, seed, level="exploration"):
        self.prop, self.tier, self.seed, self.level = prop, tier, seed, level
        self.t0 = time.time()
        self.viol = collections.OrderedDict()   # key -> {"count", "witness", "detail"}
        self.counters = collections.Counter()
        self.cov = {}
        self.samples = []
        self.assumptions = []
        self.distinct = set()
        self.distinct_count = 0
        global CURRENT_REPORT
        CURRENT_REPORT = self          # the whole-run watchdog reports violations already merged when it fires (./check)

    # -- violations -------------------------------------------------------------------------
    def violation(self, key, witness, detail=None, count=1):
        e = self.viol.get(key)
        w = witness
        if e is None:
            self.viol[key] = {"count": count, "witness": w, "detail": detail}
        else:
            e["count"] += count
            # keep the smallest witness (shortest rendering, then lexicographic)
            if _wkey(w) < _wkey(e["witness"]):
                e["witness"], e["detail"] = w, detail

    def merge(self, part):
        """Merge a worker's partial result: dict(counters=..., viol=[(key,witness,detail)], samples=[...],
        distinct=int)"""
        self.counters.update(part.get("counters", {}))
        for v in part.get("viol", []):
            key, w, d = v[0], v[1], v[2] if len(v) > 2 else None
            cnt = v[3] if len(v) > 3 else 1
            self.violation(key, w, d, cnt)
        for s in part.get("samples", []):
            if len(self.samples) < 12:
                self.samples.append(s)
        self.distinct_count += part.get("distinct", 0)
        for k, v in part.get("sets", {}).items():
            self.cov.setdefault(k, set()).update(v)

    def require(self, cond, msg):
        """Coverage floor of the harness: missing observations are *inconclusive* - unless violations were already
        observed, in which case those are reported (a crashing library often is the reason for the missing data)."""
        if not cond and not self.viol:
            raise Inconclusive(msg)

    # -- finish -----------------------------------------------------------------------------
    def finish(self, evaluations, distinct_nontrivial, rule, extra_cov=None, min_eval=1):
        known = [k for k in load_known() if k.get("property") == self.prop]
        open_keys = {k["key"]: k for k in known if k.get("status") == "open"}
        new = []
        for key, e in self.viol.items():
            if key in open_keys:
                print("KNOWN-FINDING: property=%s %s witness=%s (seen %d times this run)" % (
                    self.prop, key, json.dumps(e["witness"], ensure_ascii=True)[:300], e["count"]))
            else:
                new.append((key, e))
        rc = 0
        for key, e in new:
            path = write_replay(self.prop, key, e, self.tier, self.seed)
            print("VIOLATION property=%s replay=%s" % (self.prop, path))
            print("  key=%s count=%d witness=%s" % (key, e["count"], json.dumps(e["witness"], ensure_ascii=True)[:400]))
            if e.get("detail"):
                print("  detail=%s" % (json.dumps(e["detail"], ensure_ascii=True)[:600]))
            rc = 1
        cov = {
            "evaluations": int(evaluations),
            "distinct_nontrivial": int(distinct_nontrivial),
            "rule": rule,
            "samples": self.samples[:12] if self.samples else [],
            "counters": {k: v for k, v in sorted(self.counters.items())},
        }
        for k, v in self.cov.items():
            cov[k] = sorted(v) if isinstance(v, (set, frozenset)) else v
        if extra_cov:
            cov.update(extra_cov)
        cov["known_findings_seen"] = sorted(k for k in self.viol if k in open_keys)
        cov["violation_keys"] = [k for k, _ in new]
        ev = {
            "property_id": self.prop, "tier": self.tier, "seed": int(self.seed), "level": self.level,
            "coverage": cov, "assumptions": self.assumptions, "wall_s": round(time.time() - self.t0, 2),
            "violations": len(new),
        }
        if (evaluations < min_eval or distinct_nontrivial < 2 or not cov["samples"]) and rc == 0:
            write_evidence(self.prop, ev)
            print("INCONCLUSIVE property=%s: observed too little (evaluations=%d distinct=%d)" % (
                self.prop, evaluations, distinct_nontrivial))
            return 2 if rc == 0 else rc
        write_evidence(self.prop, ev)
        print("%s property=%s tier=%s seed=%s evaluations=%d distinct_nontrivial=%d violations=%d known=%d wall=%.1fs" % (
            "HELD" if rc == 0 else "VIOLATED", self.prop, self.tier, self.seed, evaluations, distinct_nontrivial,
            len(new), len(self.viol) - len(new), time.time() - self.t0))
        return rc


def _wkey(w):
    s = json.dumps(w, sort_keys=True, ensure_ascii=True)
    return (len(s), s)


def write_replay(prop, key, entry, tier, seed):
    d = os.path.join(os.environ.get("VERIF_REPLAY_DIR") or os.path.join(VERIF, "replays"), prop)
    os.makedirs(d, exist_ok=True)
    name = re.sub(r"[^A-Za-z0-9_.-]+", "_", key)[:100] + ".json"
    path = os.path.join(d, name)
    with open(path, "w") as f:
        json.dump({"property": prop, "key": key, "tier": tier, "seed": seed, "count": entry["count"],
                   "witness": entry["witness"], "detail": entry.get("detail")}, f, indent=1, ensure_ascii=True)
    return path


def write_evidence(prop, ev):
    d = os.environ.get("VERIF_EVIDENCE_DIR") or os.path.join(VERIF, "evidence")
    os.makedirs(d, exist_ok=True)
    path = os.path.join(d, prop + ".json")
    tmp = path + ".tmp%d" % os.getpid()
    with open(tmp, "w") as f:
        json.dump(ev, f, indent=1, ensure_ascii=True, default=_jdefault)
        f.write("\n")
    os.replace(tmp, path)
    # validate when jsonschema is importable (tooling venv); never fatal otherwise
    try:
        import jsonschema  # type: ignore
        schema = json.load(open("/root/.vp/EVIDENCE.schema.json"))
        jsonschema.validate(json.load(open(path)), schema)
    except ImportError:
        pass
    except FileNotFoundError:
        pass
    return path


def _jdefault(o):
    if isinstance(o, (set, frozenset)):
        return sorted(o)
    if isinstance(o, bytes):
        return b2s(o)
    return str(o)


# ---- parallel map ---------------------------------------------------------------------------
def _call(args):
    fn, a = args
    try:
        return ("ok", fn(*a))
    except Inconclusive as e:
        return ("inc", str(e))
    except Exception as e:
        # a driver that dies (sanitizer report, abort, hang) inside a worker that has no finer attribution is still a
        # *library* event: report it as a violation of the running check, not as a harness failure
        if e.__class__.__name__ in ("DriverCrash", "DriverHang"):
            sig = e.signature() if hasattr(e, "signature") else "hang/no-termination"
            return ("ok", {"counters": {}, "viol": [("crash/%s" % sig, {"worker": getattr(fn, "__name__", "?"),
                                                                      "op": (getattr(e, "line", None) or "")[:300]},
                                                     {"stderr": getattr(e, "stderr", str(e))[-1500:]})],
                           "samples": [], "distinct": 0, "sets": {}})
        return ("exc", traceback.format_exc())


def _worker_init():
    import signal
    signal.signal(signal.SIGTERM, signal.SIG_DFL)
    signal.signal(signal.SIGALRM, signal.SIG_DFL)


def pmap(fn, arglist, nproc=None):
    """Run fn(*args) for every args tuple in arglist on a process pool; yields results in completion order.
    A worker exception is a harness failure (Inconclusive)."""
    arglist = list(arglist)
    if not arglist:
        return
    n = min(nproc or NPROC, len(arglist))
    if n <= 1:
        for a in arglist:
            st, r = _call((fn, a))
            if st != "ok":
                raise Inconclusive(r)
            yield r
        return
    ctx = multiprocessing.get_context("fork")
    with ctx.Pool(n, initializer=_worker_init) as pool:
        for st, r in pool.imap_unordered(_call, [(fn, a) for a in arglist], chunksize=1):
            if st != "ok":
                pool.terminate()
                raise Inconclusive(r)
            yield r


def tier_and_seed(argv=None):
    tier = os.environ.get("VERIF_TIER", "quick")
    seed = os.environ.get("VERIF_SEED", "1")
    argv = list(sys.argv[1:] if argv is None else argv)
    rest = []
    i = 0
    while i < len(argv):
        if argv[i] == "--tier" and i + 1 < len(argv):
            tier = argv[i + 1]; i += 2
        elif argv[i] == "--seed" and i + 1 < len(argv):
            seed = argv[i + 1]; i += 2
        else:
            rest.append(argv[i]); i += 1
    if tier not in ("quick", "thorough"):
        tier = "quick"
    try:
        seed = int(seed)
    except ValueError:
        seed = int(hashlib.sha1(str(seed).encode()).hexdigest()[:8], 16)
    return tier, seed, rest
