"""Dictionaries of spellings that mean something in *another* convention (other RFCs, other parsers, other tools).  A validator that
special-cases one of them is wrong in a way no class-alphabet enumeration sees, because every character stands for its class there.
Verdicts always come from the reference oracles; these lists only provide inputs."""

# local parts made of atext only (so every ASCII grammar accepts them unless the RFC 20 option is on): encoded words, BATV / SRS /
# VERP / sub-addressing tags, UUCP and percent routing, X.400-like, shell / SQL / template / URL look-alikes, numbers
REAL_LOCALS = [
    b"=?utf-8?Q?joe?=", b"=?UTF-8?B?am9l?=", b"=?us-ascii?q?a?=", b"=?x?=", b"=??=", b"=?", b"?=", b"=?a", b"a?=", b"=?=", b"?==?",
    b"prvs=0123456789=user", b"SRS0=HHH=TT=example.org=user", b"SRS1=HHH=example.net==HHH=TT=example.org=user", b"btv1==123==user",
    b"user+tag", b"user+tag+tag2", b"user-tag", b"user=tag", b"user+", b"+user", b"user++tag", b"list-owner+bob=example.org",
    b"bounce-123-456=user=example.org", b"host!user", b"a!b!c", b"user%example.org", b"user%host%relay", b"%user", b"user%",
    b"/G=John/S=Smith/O=Org/", b"/C=US/ADMD=ATT/", b"$user", b"${user}", b"$(user)", b"`user`", b"{user}", b"%s", b"%40", b"%00", b"%2e",
    b"a%40b", b"&amp", b"a&b", b"a=b", b"a?b=c&d=e", b"'--", b"'or'1'='1", b"*", b"**", b"/", b"//", b"/etc/passwd", b"~user", b"~",
    b"#1", b"#", b"^", b"|", b"a|b", b"-", b"--", b"-f", b"--help", b"-oQ/tmp", b"_", b"__", b"0", b"00", b"007", b"0x1f", b"1e3",
    b"1.0", b"1.2.3.4", b"127.0.0.1", b"-1", b"+1", b"1+1=2", b"null", b"NULL", b"nil", b"none", b"undefined", b"true", b"false", b"nan",
    b"postmaster", b"Postmaster", b"POSTMASTER", b"abuse", b"noreply", b"no-reply", b"MAILER-DAEMON", b"mailer-daemon", b"root", b"admin",
    b"mailto:user", b"mailto", b"smtp", b"IPv6", b"xn--p1ai", b"xn--", b"XN--80AK6AA92E", b"example", b"localhost", b"test", b"invalid",
    b"con", b"nul", b"aux", b"prn", b"com1", b"lpt1", b".htaccess", b"a.b.c.d.e.f", b"first.last", b"f.l", b"a.1", b"1.a",
    b'"=?utf-8?Q?joe?="', b'"user+tag"', b'"a@b"', b'"a"@', b'"postmaster"', b'"<script>"', b'"a;b"', b'"a,b"', b'"a:b"', b'"(c)"',
    b'"very.(),:;<>[]\\".VERY.\\"very@\\\\ \\"very\\".unusual"', b'"()<>[]:,;@\\\\\\"!#$%&\'-/=?^_`{}| ~.a"', b'" "', b'"."', b'".."', b'"a..b"',
    b"a.\"b\".c", b'"a"."b"."c"', b'"".a', b'a.""', b'"\\a"', b'"\\\\"', b'"\\""',
]

ATEXT_SYMBOLS = b"!#$%&'*+-/=?^_`{|}~"

# host-name labels that are numbers to some parser (inet_aton hex / octal, floats, binary, separators) but LDH strings with a
# letter to RFC 1123, and the other way round
NUMERIC_LOOKING = [
    b"0x1", b"0x7f", b"0X1F", b"0xcafe", b"0xdeadbeef", b"0x", b"0xg", b"x0", b"00x1", b"0x0", b"0x00000001", b"0xffffffff", b"0x100000000",
    b"0177", b"0377", b"0400", b"00", b"000", b"08", b"09", b"1e3", b"1e", b"e1", b"0e0", b"1e-3", b"1-3", b"0b1", b"0b101", b"0o7", b"1l",
    b"1f", b"7f", b"ff", b"deadbeef", b"cafe", b"a", b"f", b"e", b"x", b"nan", b"inf", b"infinity", b"0-0", b"1-1", b"1--1", b"4294967295",
    b"4294967296", b"18446744073709551616", b"999999999999999999999999", b"1_000", b"1_0", b"_1", b"1_",
]

# tokens that other address-literal syntaxes use; inserted at every position of valid literals
LITERAL_TOKENS = [b"IPv6:", b"ipv6:", b"IPV6:", b"IPv4:", b"IPv6", b"v6:", b"v1.", b"0x", b"0X", b"0x1", b"x", b"%eth0", b"%1", b"%25eth0",
                  b"/64", b"/128", b"/32", b"::", b":", b"::ffff:", b".", b"..", b"[", b"]", b"][", b"+", b"-", b" ", b"\t", b"0", b"00", b"1e1",
                  b"g", b"A", b"F", b"f"]

# reserved words of RFC 2606 / 6761 / 7686 and their neighbours, to be placed at every label position
RESERVED_WORDS = [b"example", b"test", b"invalid", b"localhost", b"onion", b"local", b"alt", b"home", b"internal", b"lan", b"corp"]
