"""R-HOST, R-LITERAL, R-SPECIAL, R-TLD: reference deciders for the domain half, from C04/C05/C07/C09."""
import os, re

MUST_ACCEPT, MUST_REJECT, EITHER = "MUST_ACCEPT", "MUST_REJECT", "EITHER"

_LET = set(b"abcdefghijklmnopqrstuvwxyzABCDEFGHIJKLMNOPQRSTUVWXYZ")
_DIG = set(b"0123456789")


# ---- R-HOST ------------------------------------------------------------------------------------------
def host_accepts(d, underscore=False):
    """C04: labels 1-63 of letters/digits/interior hyphens (underscore counts as a letter when the build allows it)
    separated by single dots, optional single root dot, <=253 without the root dot, not only digits and dots."""
    return host_reason(d, underscore) is None


def host_reason(d, underscore=False):
    if len(d) == 0:
        return "empty"
    body = d
    if body.endswith(b"."):
        body = body[:-1]
        if len(body) == 0:
            return "only-root-dot"
    if len(body) > 253:
        return "too-long"
    labels = body.split(b".")
    nonnum = False
    for lab in labels:
        if len(lab) == 0:
            return "empty-label"
        if len(lab) > 63:
            return "label-too-long"
        for c in lab:
            if c in _LET or (underscore and c == 0x5f):
                nonnum = True
            elif c in _DIG:
                pass
            elif c == 0x2d:
                nonnum = True
            else:
                return "bad-char"
        if lab[0] == 0x2d or lab[-1] == 0x2d:
            return "hyphen"
    if not nonnum:
        return "numeric"
    return None


def host_reasons_all(d, underscore=False):
    """Every rule of C04 the string violates (for error-code truthfulness, C15)."""
    r = set()
    if len(d) == 0:
        return {"empty"}
    body = d[:-1] if d.endswith(b".") else d
    if len(body) > 253:
        r.add("too-long")
    labels = body.split(b".")
    nonnum = False
    for lab in labels:
        if len(lab) == 0:
            r.add("empty-label")
            continue
        if len(lab) > 63:
            r.add("label-too-long")
        for c in lab:
            if c in _LET or (underscore and c == 0x5f) or c == 0x2d:
                nonnum = True
            elif c not in _DIG:
                r.add("bad-char")
        if lab[0] == 0x2d or lab[-1] == 0x2d:
            r.add("hyphen")
    if not nonnum and "bad-char" not in r:
        r.add("numeric")
    return r


# ---- R-LITERAL ----------------------------------------------------------------------------------------
_HEXG = re.compile(rb"[0-9A-Fa-f]{1,4}\Z")
_DEC = re.compile(rb"[0-9]+\Z")


def _quad_any(b):
    """Dotted quad of decimal numbers <=255, any digit count >=1.  Returns list of octet strings or None."""
    parts = b.split(b".")
    if len(parts) != 4:
        return None
    for p in parts:
        if not _DEC.match(p) or int(p) > 255:
            return None
    return parts


def _quad_strict(b):
    """RFC 5321 IPv4-address-literal: 1-3 digit octets <= 255."""
    parts = _quad_any(b)
    if parts is None or any(len(p) > 3 for p in parts):
        return None
    return parts


def _v6_rfc4291(b):
    """RFC 4291 text form: groups of 1-4 hex digits; 8 groups or fewer with exactly one '::'; optional dotted-quad
    tail counting as two groups.  Returns dict(groups, compressed, tail, elided) or None."""
    if b.count(b"::") > 1 or b":::" in b:
        return None
    tail = None
    body = b
    if b"." in b:
        i = b.rfind(b":")
        if i < 0:
            return None
        tail = _quad_any(b[i + 1:])
        if tail is None:
            return None
        body = b[:i + 1]          # keeps the ':' before the tail
        # body ends with ':'; if it ends with '::' the tail follows the compression directly
        if body.endswith(b"::"):
            pass
        else:
            body = body[:-1]
            if body == b"":
                return None       # ":1.2.3.4"
    if b"::" in body:
        left, right = body.split(b"::", 1)
        lg = left.split(b":") if left else []
        rg = right.split(b":") if right else []
        groups = lg + rg
        compressed = True
    else:
        groups = body.split(b":") if body else []
        compressed = False
    for g in groups:
        if not _HEXG.match(g):
            return None
    n = len(groups) + (2 if tail is not None else 0)
    if compressed:
        if n > 7:
            return None
    else:
        if n != 8:
            return None
    return {"groups": groups, "n": n, "compressed": compressed, "tail": tail}


def _v6_rfc5321(b):
    """RFC 5321 4.1.3: IPv6-full / IPv6-comp / IPv6v4-full / IPv6v4-comp (addr without the tag)."""
    info = _v6_rfc4291(b)
    if info is None:
        return None
    if info["tail"] is not None and _quad_strict(b[b.rfind(b":") + 1:]) is None:
        return None
    if info["compressed"]:
        # IPv6-comp: at most 6 groups besides "::" ; IPv6v4-comp: at most 4 groups besides "::" and the quad
        if info["tail"] is None and len(info["groups"]) > 6:
            return None
        if info["tail"] is not None and len(info["groups"]) > 4:
            return None
    return info


def literal_verdict(d):
    """C05 three-valued verdict for a domain that starts with '['.  Returns (verdict, family or None, why)."""
    assert d[:1] == b"["
    if not d.endswith(b"]") or d.count(b"]") != 1 or d.count(b"[") != 1:
        return MUST_REJECT, None, "not-exactly-bracketed"
    addr = d[1:-1]
    tagged = False
    if addr[:5].lower() == b"ipv6:":
        tagged_exact = addr[:5] == b"IPv6:"
        tagged = True
        body = addr[5:]
        info = _v6_rfc4291(body)
        if info is None:
            return MUST_REJECT, None, "tagged-not-ipv6"
        i5321 = _v6_rfc5321(body)
        if tagged_exact and i5321 is not None:
            t = i5321["tail"]
            if t is None or int(t[0]) != 0:
                return MUST_ACCEPT, "v6", "rfc5321-ipv6"
        return EITHER, "v6", "ipv6-outside-must-region"
    q = _quad_any(addr)
    if q is not None:
        if all(len(p) <= 3 for p in q) and int(q[0]) != 0:
            return MUST_ACCEPT, "v4", "ipv4"
        return EITHER, "v4", "ipv4-outside-must-region"
    info = _v6_rfc4291(addr)
    if info is not None:
        return EITHER, "v6", "untagged-ipv6"
    return MUST_REJECT, None, "no-address"


# ---- R-SPECIAL / R-TLD -------------------------------------------------------------------------------
RESERVED_TLD = (b"test", b"example", b"invalid", b"localhost", b"onion")
RESERVED_2LD = (b"example.com", b"example.net", b"example.org")


def _lower_ascii(b):
    return bytes(c + 32 if 0x41 <= c <= 0x5a else c for c in b)


def is_special(d):
    """C09 (domain without root dot, already a valid host name)."""
    labels = _lower_ascii(d).split(b".")
    if labels[-1] in RESERVED_TLD:
        return True
    if len(labels) >= 2 and b".".join(labels[-2:]) in RESERVED_2LD:
        return True
    return False


TLD_CLASS_NAMES = ["UNUSED", "NOT_ASSIGNED", "COUNTRY_CODE", "GENERIC", "GENERIC_RESTRICTED", "INFRASTRUCTURE",
                   "SPONSORED", "TEST", "SPECIAL", "RETIRED"]

_ROW = re.compile(r'\{\s*"([^"]*)"\s*,\s*(\d+)\s*,[^}]*?TLD_TYPE_([A-Z_]+)[^}]*\}')


def load_tld_table(repo):
    """name -> class name, parsed from the *text* of src/auto_tld.c (the shipped table); the length column is
    returned separately and deliberately not used by lookups."""
    rows = []
    with open(os.path.join(repo, "src", "auto_tld.c"), encoding="utf-8", errors="replace") as f:
        for line in f:
            m = _ROW.search(line)
            if m:
                rows.append((m.group(1).encode(), int(m.group(2)), m.group(3)))
    return rows


def parse_enum(repo, header, prefix):
    """Read enum constants `prefix...` with their values from a public header (values: explicit `= 1 << n`, or
    sequential)."""
    txt = open(os.path.join(repo, header), encoding="utf-8", errors="replace").read()
    txt = re.sub(r"/\*.*?\*/", "", txt, flags=re.S)
    out = {}
    for block in re.findall(r"enum\s*\w*\s*\{(.*?)\}", txt, flags=re.S):
        val = -1
        for item in block.split(","):
            item = item.strip()
            if not item:
                continue
            m = re.match(r"(\w+)\s*(?:=\s*(.+))?$", item, flags=re.S)
            if not m:
                continue
            name, expr = m.group(1), m.group(2)
            if expr is not None:
                try:
                    val = int(eval(expr, {"__builtins__": {}}, dict(out)))
                except Exception:
                    continue
            else:
                val += 1
            if name.startswith(prefix):
                out[name] = val
            else:
                out[name] = val
    return {k: v for k, v in out.items() if k.startswith(prefix)}
