"""C02 - ASCII local part is exactly word *("." word) under each RFC's character rules.

Runs is_822_local / is_5321_local / is_5322_local (ASan+UBSan build of /repo's working tree) on
bounded-exhaustive class-alphabet strings, an automaton conformance suite, a per-byte suite (every byte value in every
reference state), long random walks and the repository corpora, and compares every return code with R-LOCAL."""
import itertools, random
from .. import core, ctx as _ctx, localgen as LG, oracle_local as OL, gen

PROP = "C02"
MODES = ["822", "5321", "5322"]
# one representative per byte class: atom, rfc20-atom, DQUOTE, backslash, dot, SP, HT, CR, LF, other control,
# special, high byte
TOKENS = [b"a", b"#", b'"', b"\\", b".", b" ", b"\t", b"\r", b"\n", b"\x01", b"(", b"\xff"]


def chunks(l, n):
    for i in range(0, len(l), n):
        yield l[i:i + n]


def main(tier, seed, prop=PROP):
    rep = core.Report(prop, tier, seed)
    cx = _ctx.Ctx(prop)
    exe = cx.exe("asan")
    opts = tuple(sorted(cx.builds_info()["stock_option_macros"]))
    rng = random.Random(seed)
    jobs = []
    k = 5 if tier == "quick" else 7
    pre = 2 if tier == "quick" else 3
    # bounded-exhaustive: shard by the first `pre` tokens; shorter strings in one extra job
    jobs.append((LG.w_enum, (exe, MODES, TOKENS, pre - 1, (), opts, prop)))
    for p in itertools.product(range(len(TOKENS)), repeat=pre):
        jobs.append((LG.w_enum, (exe, MODES, TOKENS, k - pre, p, opts, prop)))
    # conformance + per-byte suites + corpora, with the high-level call cross-checked
    conf = set()
    for m in MODES:
        conf.update(LG.conformance_strings(m, frozenset(opts)))
    conf = sorted(conf)
    for ch in chunks(conf, 4000):
        jobs.append((LG.w_list, (exe, MODES, ch, opts, prop, "conformance", True, True)))
    bs = set()
    for m in MODES:
        bs.update(LG.byte_suite(m, frozenset(opts)))
    bs = sorted(bs)
    for ch in chunks(bs, 6000):
        jobs.append((LG.w_list, (exe, MODES, ch, opts, prop, "bytes", False)))
    corp = gen.corpus_localparts()
    muts = set()
    for b in corp:
        for _ in range(20 if tier == "quick" else 200):
            muts.add(gen.mutate(b, rng, rng.randrange(1, 3)))
    corp_all = sorted(set(corp) | {m for m in muts if m and b"\x00" not in m})
    for ch in chunks(corp_all, 4000):
        jobs.append((LG.w_list, (exe, MODES, ch, opts, prop, "corpus", True, True)))
    # length boundary 63..66 in atom / quoted / dotted shapes (decision of the high-level call: <= 64)
    bound = []
    for n in range(60, 70):
        bound += [b"a" * n, b'"' + b"a" * (n - 2) + b'"', (b"a." * n)[:n - 1] + b"a", b"a" * (n - 1) + b".",
                  b'"' + b"a" * (n - 3) + b'\\"']
    jobs.append((LG.w_list, (exe, MODES, bound, opts, prop, "boundary", True, True)))
    ds = LG.dictionary_strings()
    for i in range(0, len(ds), 15000):
        jobs.append((LG.w_list, (exe, MODES, ds[i:i + 15000], opts, prop, "dictionary", i == 0, False)))
    # block-size cover and the deterministic suites once more in a build with -O2 -march=native
    native = cx.exe("asan-native", san="asan-native")
    bl = LG.block_strings()
    for i in range(0, len(bl), 8000):
        jobs.append((LG.w_list, (exe, MODES, bl[i:i + 8000], opts, prop, "blocks", False, False)))
        jobs.append((LG.w_list, (native, MODES, bl[i:i + 8000], opts, prop, "blocks/native", False, False)))
    for src, lst in (("conformance/native", conf), ("bytes/native", bs), ("dictionary/native", ds[::4]), ("corpus/native", corp_all[::3])):
        for ch in chunks(lst, 8000):
            jobs.append((LG.w_list, (native, MODES, ch, opts, prop, src, src.startswith("conformance"), False)))
    wb = LG.width_boundary_strings(tier)
    for i in range(0, len(wb), 30):
        jobs.append((LG.w_list, (exe, MODES, wb[i:i + 30], opts, prop, "width-boundaries", False, False)))
    # local parts larger than the default stack, handed to the validators directly
    for which in ("atom", "dots", "quoted", "late-8bit", "late-space"):
        jobs.insert(0, (LG.w_giant, (exe, MODES, (9 if tier == "quick" else 33) * 1024 * 1024, opts, prop, which)))
    # lengths that do not fit an int (2 GiB and more), in an uninstrumented build; at most three at a time (memory)
    plain = cx.exe("plain-O2", san="plain-O2")
    jobs[0:0] = LG.huge_jobs(plain, MODES, tier, opts, prop)
    # long random walks
    nrand = 60 if tier == "quick" else 600
    maxlen = 65536
    for i in range(16 if tier == "quick" else 64):
        r = random.Random(seed * 1000 + i)
        ss = []
        for m in MODES:
            ss += LG.random_strings(m, r, max(1, nrand // 16), maxlen if i % 4 == 0 else 2000, frozenset(opts))
        jobs.append((LG.w_list, (exe, MODES, ss, opts, prop, "random", False)))
    evaluations = 0
    for part in core.pmap(_run, jobs):
        rep.merge(part)
    rep.require(rep.counters.get("huge.strings", 0) > 0, "no 2 GiB input could be allocated")
    c = rep.counters
    evaluations = sum(v for kk, v in c.items() if kk.endswith(".accept") or kk.endswith(".reject"))
    # reference-automaton coverage (measured from the traces of the suites)
    covinfo = {}
    for m in MODES:
        _, trans = OL.reachable(m, frozenset(opts))
        total = {"%s+%s" % (s, cl) for (s, cl) in trans if s != "X"}
        seen = rep.cov.get("transitions." + m, set()) & total
        covinfo[m] = {"transitions_total": len(total), "transitions_exercised": len(seen)}
        rep.require(not (len(seen) < len(total)), "reference transition cover incomplete for %s: %s" % (m, sorted(total - seen)[:5]))
        rep.cov.pop("transitions." + m, None)
    rep.assumptions += ["R-LOCAL (two independent implementations, cross-checked on every string) encodes the statement",
                        "inputs contain no NUL; end pointer equals the terminator"]
    return rep.finish(evaluations, rep.distinct_count,
                      "strings over a 12-class alphabet up to length %d (exhaustive), conformance suite from the reference "
                      "automaton, every byte 1..255 in every reference state, corpus+mutations, random walks to 64 KiB; "
                      "distinct non-empty strings are counted per generator shard; local parts of 9 MiB under ASan and of 2^31.. bytes (thorough: to 2^32+3) in an -O2 build, built inside the driver" % k,
                      {"reference_automaton": covinfo, "enumeration_bound": k, "alphabet": [core.b2s(t) for t in TOKENS],
                       "builds": cx.builds_info(), "exhaustive": False})


def _run(fn, args):
    return fn(*args)
