"""C11 - generated TLD table is a faithful translation of data/punycode.csv (translation validation).

Runs the repository's own generators on the shipped CSVs (in a private mirror), diffs their output against the shipped
files, walks the table compiled into the library, and looks every row (and many non-rows) up through is_tld()."""
import csv, io, json, os, random, re, shutil, subprocess, collections
from .. import core, ctx as _ctx, build, driver, model as _model, tldgen as TG, oracle_domain as OD

PROP = "C11"
REPO = build.REPO
CLASSMAP = {"generic": "GENERIC", "country-code": "COUNTRY_CODE", "generic-restricted": "GENERIC_RESTRICTED",
            "infrastructure": "INFRASTRUCTURE", "test": "TEST", "sponsored": "SPONSORED"}


def read_csv(path):
    with open(path, encoding="utf-8", newline="") as f:
        rows = list(csv.reader(f))
    return rows[0], rows[1:]


def documented_class(row):
    mgr = row[2]
    if re.match(r"not assigned", mgr, re.I):
        return "NOT_ASSIGNED"
    if re.match(r"retired", mgr, re.I):
        return "RETIRED"
    return CLASSMAP[row[1]]


def have_text_csv():
    return subprocess.run(["perl", "-MText::CSV", "-e", "1"], stdout=subprocess.DEVNULL, stderr=subprocess.DEVNULL).returncode == 0


SYNTHETIC_ROWS = [("zzqretired", "generic", "Retired"), ("zzqnotassigned", "country-code", "Not assigned"), ("zzqsponsored", "sponsored", "Example Registry, Inc."),
                  ("zzqrestricted", "generic-restricted", "Example Registry"), ("zzqinfra", "infrastructure", "Example"), ("zzqtest", "test", "Example"),
                  ("xn--zzq-retired-9ya", "generic", "Retired")]


def run_generators(work, extra_rows=()):
    """Mirror the needed files, run both generator programs with the canonical relative arguments.  extra_rows: rows appended to both
    CSV copies (one per documented rule, canonical spellings), to see the generators apply every rule they document."""
    for d in ("include/eav", "src", "data", "util"):
        os.makedirs(os.path.join(work, d), exist_ok=True)
    for f in ("util/gentld.pl", "util/gen_utf8_pass_test.pl", "data/punycode.csv", "data/raw.csv"):
        shutil.copy(os.path.join(REPO, f), os.path.join(work, f))
    if extra_rows:
        for f in ("data/punycode.csv", "data/raw.csv"):
            with open(os.path.join(work, f), "rb") as fh:
                body = fh.read()
            nl = b"\r\n" if b"\r\n" in body[:2000] else b"\n"
            if not body.endswith(b"\n"):
                body += nl
            for r in extra_rows:
                body += b",".join(b'"' + x.encode("utf-8") + b'"' for x in r) + nl
            with open(os.path.join(work, f), "wb") as fh:
                fh.write(body)
    inc = [] if have_text_csv() else ["-I" + os.path.join(core.VERIF, "shim", "perl")]
    env = dict(os.environ, LC_ALL="C.UTF-8")
    r1 = subprocess.run(["perl"] + inc + ["util/gentld.pl", "include/eav/auto_tld.h", "src/auto_tld.c", "data/punycode.csv"],
                        cwd=work, stdout=subprocess.PIPE, stderr=subprocess.STDOUT, env=env)
    r2 = subprocess.run(["perl"] + inc + ["util/gen_utf8_pass_test.pl", "data/tld-domains.txt", "data/raw.csv"],
                        cwd=work, stdout=subprocess.PIPE, stderr=subprocess.STDOUT, env=env)
    return r1, r2, bool(inc)


def diff_files(a, b, mask=None):
    la = open(a, encoding="utf-8", errors="replace").read().split("\n")
    lb = open(b, encoding="utf-8", errors="replace").read().split("\n")
    if mask:
        la = [mask(l) for l in la]
        lb = [mask(l) for l in lb]
    out = []
    for i in range(max(len(la), len(lb))):
        x = la[i] if i < len(la) else None
        y = lb[i] if i < len(lb) else None
        if x != y:
            out.append((i + 1, x, y))
    return out, len(la)


def main(tier, seed):
    rep = core.Report(PROP, tier, seed, level="translation_validation")
    cx = _ctx.Ctx(PROP)
    exe = cx.exe("asan")
    mdl = _model.Model()
    rng = random.Random(seed)
    work = os.path.join(cx.dir, "mirror")
    r1, r2, shim = run_generators(work)
    programs = 0
    disagreements = 0
    for name, r in (("util/gentld.pl", r1), ("util/gen_utf8_pass_test.pl", r2)):
        if r.returncode != 0:
            rep.violation("generator-fails/%s" % name, {"program": name}, {"output": r.stdout.decode("utf-8", "replace")[-800:]})
        else:
            programs += 1
    ts = lambda l: re.sub(r"auto-generated at .*? \*/", "auto-generated at <T> */", l)
    lines_compared = 0
    for rel, mask in (("include/eav/auto_tld.h", None), ("src/auto_tld.c", ts), ("data/tld-domains.txt", None)):
        if not os.path.exists(os.path.join(work, rel)):
            continue
        d, n = diff_files(os.path.join(work, rel), os.path.join(REPO, rel), mask)
        lines_compared += n
        for ln, x, y in d[:50]:
            disagreements += 1
            rep.violation("regenerated-differs/%s" % rel, {"file": rel, "line": ln}, {"generated": x, "shipped": y})
    # the generators on the shipped CSVs plus one synthetic row per documented rule ('Retired' and 'Not assigned' managers, each IANA
    # type): the generated table classifies each as documented and the generated test list names exactly the table's domains
    work2 = os.path.join(cx.dir, "mirror-synthetic")
    s1, s2, _ = run_generators(work2, SYNTHETIC_ROWS)
    if s1.returncode != 0 or s2.returncode != 0:
        rep.violation("generator-fails/synthetic-rows", {"rows": [r[0] for r in SYNTHETIC_ROWS]},
                      {"gentld": s1.stdout.decode("utf-8", "replace")[-400:], "gen_utf8_pass_test": s2.stdout.decode("utf-8", "replace")[-400:]})
    else:
        gen_rows = {n: c for n, _, c in OD.load_tld_table(work2)}
        listed = set()
        for l in open(os.path.join(work2, "data", "tld-domains.txt"), encoding="utf-8", errors="replace"):
            l = l.strip()
            if l and not l.startswith("#"):
                listed.add(l.split(".")[-1].encode("utf-8"))
        for r in SYNTHETIC_ROWS:
            rep.counters["generator.synthetic-rows"] += 1
            wantc = documented_class(r)
            got = gen_rows.get(r[0].encode())
            if got != wantc:
                rep.violation("generator/synthetic-row-class/%s" % wantc, {"row": list(r)}, {"generated_class": got, "documented_class": wantc})
            if r[0].encode() not in listed:
                rep.violation("generator/test-list-omits-a-table-row/%s" % wantc, {"row": list(r)}, {"listed": False})
        # (the list is generated from raw.csv and spells IDN rows as U-labels: only the sizes are compared here; the row-by-row pairing
        # of raw.csv and punycode.csv is checked below)
        if len(listed) != len(gen_rows):
            rep.violation("generator/test-list-and-table-differ-in-size", {"list": len(listed), "table": len(gen_rows)}, None)
    # the repository's own way of re-running the generators: `make auto tld-domains` in a mirror that holds the shipped outputs (they are
    # regenerated in place, as a maintainer does it)
    work3 = os.path.join(cx.dir, "mirror-make")
    for d in ("include/eav", "src", "data", "util"):
        os.makedirs(os.path.join(work3, d), exist_ok=True)
    for f in ("Makefile", "util/gentld.pl", "util/gen_utf8_pass_test.pl", "data/punycode.csv", "data/raw.csv", "data/tld-domains.txt",
              "include/eav/auto_tld.h", "src/auto_tld.c"):
        if os.path.exists(os.path.join(REPO, f)):
            shutil.copy(os.path.join(REPO, f), os.path.join(work3, f))
    menv = dict(os.environ, LC_ALL="C.UTF-8")
    if not have_text_csv():
        menv["PERL5LIB"] = os.path.join(core.VERIF, "shim", "perl")
    mk = subprocess.run(["make", "auto", "tld-domains"], cwd=work3, stdout=subprocess.PIPE, stderr=subprocess.STDOUT, env=menv)
    rep.counters["makefile.generator-targets-run"] = 1
    if mk.returncode != 0:
        rep.violation("generator-fails/make-auto-tld-domains", {"command": "make auto tld-domains"}, {"output": mk.stdout.decode("utf-8", "replace")[-800:]})
    else:
        for rel, mask in (("include/eav/auto_tld.h", None), ("src/auto_tld.c", ts), ("data/tld-domains.txt", None)):
            d, n = diff_files(os.path.join(work3, rel), os.path.join(REPO, rel), mask)
            lines_compared += n
            for ln, x, y in d[:20]:
                disagreements += 1
                rep.violation("regenerated-by-make-differs/%s" % rel, {"file": rel, "line": ln}, {"generated": x, "shipped": y})
    # independent reading of the CSVs
    hdr, prow = read_csv(os.path.join(REPO, "data", "punycode.csv"))
    _, rrow = read_csv(os.path.join(REPO, "data", "raw.csv"))
    want = [(r[0].encode(), documented_class(r)) for r in prow]
    # live table walk
    try:
        rows = driver.run_lines(exe, ["T"])[0]
    except driver.DriverCrash as c:
        rep.violation("crash/%s" % c.signature(), {"op": "walk of tld_list[]"}, {"stderr": c.stderr[-1500:]})
        rows = []
    live = [(bytes.fromhex(h), ln, ty) for h, ln, ty in rows]
    rep.counters["table.rows_live"] = len(live)
    rep.counters["csv.rows"] = len(want)
    if len(live) != len(want):
        rep.violation("table/row-count", {"live": len(live), "csv": len(want)}, None)
    seen = {}
    for i, (nm, ln, ty) in enumerate(live):
        if ln != len(nm) + 1:
            rep.violation("table/length-column", {"row": i, "domain": core.b2s(nm)}, {"length": ln, "strlen+1": len(nm) + 1})
        if not re.fullmatch(rb"[a-z0-9-]+", nm):
            rep.violation("table/not-lower-case-ldh", {"row": i, "domain": core.b2s(nm)}, None)
        if nm in seen:
            rep.violation("table/duplicate", {"row": i, "domain": core.b2s(nm)}, {"first": seen[nm]})
        seen[nm] = i
        if i < len(want):
            wn, wc = want[i]
            if nm != wn:
                rep.violation("table/order-or-name", {"row": i}, {"live": core.b2s(nm), "csv": core.b2s(wn)})
            elif mdl.tldtype_name.get(ty) != wc:
                rep.violation("table/class", {"row": i, "domain": core.b2s(nm)}, {"live": mdl.tldtype_name.get(ty), "csv": wc})
    # every CSV row looked up through is_tld; non-rows must miss
    names = [w[0] for w in want]
    look = {}
    for part in core.pmap(_run, [(w_lookup, (exe, names[i:i + 400])) for i in range(0, len(names), 400)]):
        look.update(part)
    for (nm, wc) in want:
        got = look.get(nm)
        rep.counters["lookup.rows"] += 1
        if got != mdl.class_number(wc):
            rep.violation("lookup/row-%s" % ("not-found" if (got or 0) < 0 else "wrong-class"), {"domain": core.b2s(nm)},
                          {"is_tld": got, "csv_class": wc})
    known = set(names)
    non = set()
    for d in TG.tld_domains("quick" if tier == "quick" else "thorough", rng, mdl):
        lab = d.split(b".")[-1]
        if OD._lower_ascii(lab) not in known:
            non.add(lab)
    non = sorted(non)
    if tier == "quick":
        non = rng.sample(non, min(len(non), 20000))
    for part in core.pmap(_run, [(w_lookup, (exe, non[i:i + 4000])) for i in range(0, len(non), 4000)]):
        for nm, got in part.items():
            rep.counters["lookup.non-rows"] += 1
            if got is None or got >= 0:
                rep.violation("lookup/non-row-found", {"label": core.b2s(nm)}, {"is_tld": got})
    # every single-bit flip of every byte of every row, all 1-3 letter labels (thorough: 4), a dictionary of historic / pseudo TLDs:
    # found iff the (ASCII-lower-cased) string is a CSV row, with that row's class
    probes = set()
    for nm in names:
        for i in range(len(nm)):
            for bit in range(8):
                c = nm[i] ^ (1 << bit)
                if c:
                    probes.add(nm[:i] + bytes([c]) + nm[i + 1:])
    import itertools, string
    for n in range(1, 4 if tier == "quick" else 5):
        for t in itertools.product(string.ascii_lowercase.encode(), repeat=n):
            probes.add(bytes(t))
    probes.update(x.encode() for x in HISTORIC)
    # unlisted labels with the same length and the same digest as a row under well-known 32-bit string hashes
    # (tools/gen_tld_collisions.py): a look-up that compares digests instead of names finds them
    try:
        col = json.load(open(os.path.join(core.VERIF, "vlib", "data", "tld_collisions.json")))
    except OSError:
        col = {}
    for name in sorted(col):
        for lab, row in col[name]:
            probes.add(lab.encode())
            probes.add(lab.upper().encode())
            rep.counters["lookup.digest-collision-probes"] += 1
    probes = sorted(probes)
    cmap = {w[0]: w[1] for w in want}
    for part in core.pmap(_run, [(w_istld, (exe, probes[i:i + 20000])) for i in range(0, len(probes), 20000)]):
        for nm, got in part.items():
            rep.counters["lookup.probes"] += 1
            wc = cmap.get(OD._lower_ascii(nm))
            exp = mdl.class_number(wc) if wc else -mdl.E("TLD_INVALID")
            if got != exp:
                rep.violation("lookup/probe-%s" % ("found-but-not-in-csv" if wc is None else "wrong-answer"), {"label": core.b2s(nm), "hex": nm.hex()},
                              {"is_tld": got, "csv_class": wc})
    # raw.csv U-label == Punycode-decode(punycode.csv A-label); tld-domains.txt line i == U.U
    tl = open(os.path.join(REPO, "data", "tld-domains.txt"), encoding="utf-8").read().split("\n")
    if tl and tl[-1] == "":
        tl.pop()
    if len(rrow) != len(prow) or len(tl) != len(prow):
        rep.violation("csv/row-count", {"punycode": len(prow), "raw": len(rrow), "tld-domains": len(tl)}, None)
    for i, (p, r) in enumerate(zip(prow, rrow)):
        rep.counters["csv.pairs"] += 1
        a = p[0]
        u = r[0]
        dec = TG.punydecode(a.encode()) if a.startswith("xn--") else a
        if dec != u:
            rep.violation("csv/raw-vs-punycode", {"row": i}, {"raw": u, "punycode": a, "decoded": dec})
        if i < len(tl) and tl[i] != "%s.%s" % (u, u):
            rep.violation("csv/tld-domains-line", {"row": i}, {"line": tl[i], "expected": "%s.%s" % (u, u)})
        if p[1:] != r[1:]:
            rep.violation("csv/type-or-manager-differs", {"row": i}, {"punycode": p[1:], "raw": r[1:]})
    rep.samples += [{"row": 0, "domain": core.b2s(want[0][0]), "class": want[0][1]},
                    {"row": len(want) - 1, "domain": core.b2s(want[-1][0]), "class": want[-1][1]},
                    {"program": "util/gentld.pl", "exit": r1.returncode}, {"program": "util/gen_utf8_pass_test.pl", "exit": r2.returncode}]
    rep.assumptions += ["data/punycode.csv is the source of truth", "Text::CSV %s" % ("is provided by shim/perl (real module absent)" if shim else "real module")]
    ev = lines_compared + len(live) + rep.counters["lookup.rows"] + rep.counters["lookup.non-rows"] + rep.counters["csv.pairs"] + rep.counters["lookup.probes"]
    return rep.finish(ev, len(want) + len(non),
                      "both generator programs re-run on the shipped CSVs and diffed line by line against auto_tld.h, auto_tld.c "
                      "(timestamp masked) and tld-domains.txt; live table walk vs an independent CSV reading; is_tld on every row and "
                      "on near-miss/random non-rows; raw.csv vs Punycode-decoded punycode.csv; distinct = rows + non-row labels",
                      {"programs": programs, "disagreements_checked": disagreements, "lines_compared": lines_compared,
                       "builds": cx.builds_info()})


HISTORIC = """bitnet csnet uucp nato arpa local localdomain lan home corp mail internal intranet private domain host exit i2p bit coin emc lib
bazar free geek gopher indy ing micro neo null oss oz parody pirate dyn fur glue cs dd zr yu tp an um bu su eh bl mf gb eu oldtld root
invalid test example localhost onion internet web www ftp smtp alt tor zkey gnu eth crypto nft dao wallet x y z xx xxx xxxx site1 tld
belkin dlink dlinkrouter router modem gateway workgroup wpad local0 localnet lokal intern firma company office server servers
""".split()


def w_istld(exe, labels):
    recs = driver.run_lines(exe, ["K " + driver.hx(l) for l in labels])
    return {l: r for l, r in zip(labels, recs)}


def w_lookup(exe, labels):
    recs = driver.run_lines(exe, ["D " + driver.hx(l) for l in labels])
    return {l: r[7] for l, r in zip(labels, recs)}


def _run(fn, args):
    return fn(*args)
