"""C09 - reserved domains (RFC 2606/6761/7686) recognised exactly, whatever precedes them."""
import random
from .. import core, ctx as _ctx, tldgen as TG

PROP = "C09"


def main(tier, seed):
    rep = core.Report(PROP, tier, seed)
    cx = _ctx.Ctx(PROP)
    exe = cx.exe("asan")
    rng = random.Random(seed)
    doms = TG.special_domains(tier, rng)
    jobs = [(TG.w_special, (exe, doms[i:i + 3000], "special")) for i in range(0, len(doms), 3000)]
    idoms = TG.special_idn_domains(tier, rng)
    jobs += [(TG.w_special_idn, (exe, idoms[i:i + 1500], "special-idn")) for i in range(0, len(idoms), 1500)]
    # the LABELS_ALLOW_UNDERSCORE build: names with '_' in the labels further left are valid host names there and are classified by
    # the same rule; names without '_' are classified as in the default build
    exe_us = cx.exe("asan-underscore", defs=["LABELS_ALLOW_UNDERSCORE"])
    us = set()
    for d in doms[:: (9 if tier == "quick" else 2)]:
        labs = d.split(b".")
        us.add(d)
        for v in (b"_dmarc." + d, b"old_days." + d, b"a_." + d, b"_." + d):
            us.add(v)
        if len(labs) >= 2:
            l0 = labs[0]
            us.add(b".".join([l0[:len(l0) // 2] + b"_" + l0[len(l0) // 2:]] + labs[1:]))
            us.add(b".".join([b"_" + l0[1:]] + labs[1:]) if len(l0) > 1 else d)
    from .. import oracle_domain as OD
    us = sorted(d for d in us if OD.host_accepts(d, True) and not d.endswith(b"."))
    jobs += [(TG.w_special, (exe_us, us[i:i + 3000], "special/underscore-build")) for i in range(0, len(us), 3000)]
    for part in core.pmap(_run, jobs):
        rep.merge(part)
    c = rep.counters
    rep.require(not (not (c["expected.special"] and c["expected.not-special"])), "generator did not produce both classes")
    rep.assumptions += ["only valid host names without root dot are judged (the statement's scope)"]
    return rep.finish(c["calls"], rep.distinct_count,
                      "every reserved suffix and every one-edit neighbour (insert/delete/substitute over [a-z0-9-.]) bare and "
                      "behind 1-3 labels of length %s and fixed fillers (example, test, abcdefg, ...), all case patterns of the "
                      "reserved part; is_special_domain directly and is_<rfc>_email(tld on) in 4 modes; distinct = distinct "
                      "domains; a sample also in the LABELS_ALLOW_UNDERSCORE build with '_' in the labels further left" % ("1-63" if tier != "quick" else "1-11,62,63"),
                      {"builds": cx.builds_info()})


def _run(fn, args):
    return fn(*args)
