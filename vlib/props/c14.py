"""C14 - thread safety: concurrent validation equals sequential validation, no data races.

drv/thr.c under (1) gcc ThreadSanitizer, (2) valgrind helgrind (and drd in the thorough tier) on an uninstrumented -O2 build:
2-16 threads, each with its own eav_t cycling through every mode/setting plus the stateless validators on a few shared
read-only strings, random yields/sleeps, every outcome compared with a sequential reference computed first."""
import json, os, random, re, subprocess, time
from .. import core, ctx as _ctx, build, driver

PROP = "C14"
POOL = ["user@почта.рф".encode(), b"user@mail.ru", "иван@иванов.рф".encode(), b"u@[1.2.3.4]", b"u@[IPv6:2001:db8::1]", "x@在线.在线".encode(),
        b"a..b@c.com", b"u@a.zzzz", "u@☕.de".encode(), b"u@example.com", b"special@localhost", b'"a b"@iana.org', b"abcdefg@abcdefg.test",
        b"u@a.abarth", b"not-an-address", "ü@bücher.example.org".encode(),
        # literals of every kind (tagged / untagged, with dotted-quad tail, invalid tail): each takes its own path through the IP parsers
        b"u@[IPv6:::ffff:1.2.3.4]", b"u@[IPv6:1:2:3:4:5:6:9.8.7.6]", b"u@[IPv6:::ffff:1.2.3.400]", b"u@[2001:db8::1]", b"u@[10.0.0.256]",
        b"u@x.example.com", b'"q"@[IPv6:1::2]']


# addresses that fail inside the IDN conversion with different codes (disallowed, Punycode input / overflow, encoding, joiner without
# context, label too long, leading hyphen, bidi): their messages come from the IDN library at call time
POOL_IDN = ["u@\u2615.de".encode(), b"u@xn--a-.example.org", b"u@\xff\xfe.com", "u@a\u200db.com".encode(), ("u@" + "\u00e9" * 70 + ".com").encode(),
            b"u@xn--99999999.com", "u@-\u00e9.com".encode(), "u@a\u05d0.com".encode(), "u@\u0300a.com".encode(), b"u@xn--.com",
            "user@\u043f\u043e\u0447\u0442\u0430.\u0440\u0444".encode(), b"user@mail.ru"]


def run_thr(cmd, env, timeout, pool=None):
    data = ("\n".join(a.hex() for a in (pool or POOL)) + "\n").encode()
    t0 = time.time()
    try:
        p = subprocess.run(cmd, input=data, stdout=subprocess.PIPE, stderr=subprocess.PIPE, env=env, timeout=timeout)
    except subprocess.TimeoutExpired:
        return None, "", "timeout", time.time() - t0
    return p.returncode, p.stdout.decode("utf-8", "replace"), p.stderr.decode("utf-8", "replace"), time.time() - t0


def tsan_reports(err):
    """Split TSan output into report blocks; signature = kind + first libeav frames of the two stacks."""
    out = []
    for blk in re.split(r"={18}\n", err):
        m = re.search(r"WARNING: ThreadSanitizer: ([^\n(]+)", blk)
        if not m:
            continue
        frames = []
        for fm in re.finditer(r"#\d+ (\S+) (\S+?):(\d+)", blk):
            if driver._in_repo(fm.group(2)):
                f = "%s@%s" % (fm.group(1), os.path.basename(fm.group(2)))
                if f not in frames:
                    frames.append(f)
        out.append((m.group(1).strip().replace(" ", "-"), frames[:2], blk[:3000]))
    return out


def valgrind_reports(err, tool):
    out = []
    blocks = re.split(r"\n==\d+== \n", err)
    for blk in blocks:
        if "Possible data race" not in blk and "Conflicting" not in blk:
            continue
        frames = []
        for fm in re.finditer(r"(?:at|by) 0x[0-9A-F]+: (\S+) \((\S+?):(\d+)\)", blk):
            frames.append((fm.group(1), fm.group(2)))
        srcs = set(os.listdir(os.path.join(build.REPO, "src"))) | set(os.listdir(os.path.join(build.REPO, "partial", "idn2")))
        mine = ["%s@%s" % (fn, f) for fn, f in frames if f in srcs]
        out.append((tool + "-race", mine[:2], blk[:3000]))
    return out


def w_tsan(exe, T, iters, seed, perturb, which="std", tool="tsan"):
    env = build.san_env({"TSAN_OPTIONS": "halt_on_error=0:exitcode=66:report_signal_unsafe=0:history_size=4",
                         "LC_ALL": "C.UTF-8" if seed % 2 else "C"})
    rc, out, err, wall = run_thr([exe, str(T), str(iters), str(seed), str(perturb)], env, 600, POOL_IDN if which == "idn" else None)
    return {"tool": tool, "T": T, "seed": seed, "rc": rc, "out": out, "reports": tsan_reports(err) if err != "timeout" else [],
            "err": err[-2000:], "wall": wall}


def w_plain(exe, T, iters, seed, launches, which, tool="plain"):
    """The uninstrumented -O2 runner at full speed (real parallelism, outcomes compared with the sequential reference only): many short
    launches, each a cold start of the library, or a few long ones; with the ordinary pool or the IDN-failure pool."""
    agg = {"tool": tool, "T": T, "seed": seed, "rc": 0, "out": "", "reports": [], "err": "", "wall": 0.0}
    tot = {"calls": 0, "overlapping_call_pairs": 0, "calls_overlapping_another_thread": 0, "mismatches": 0, "threads": T, "launches": 0}
    for k in range(launches):
        rc, out, err, wall = run_thr([exe, str(T), str(iters), str(seed * 1000 + k), str(k % 2)], dict(os.environ, LC_ALL="C.UTF-8" if k % 2 else "C"),
                                     600, POOL_IDN if which == "idn" else None)
        agg["wall"] += wall
        if rc is None or rc not in (0, 3):      # 3: finished, outcomes differed (reported in the JSON)
            agg.update(rc=rc, out=out, err=err[-2000:])
            return agg
        try:
            info = json.loads(out.strip().split("\n")[-1])
        except ValueError:
            agg.update(rc=rc, out=out, err=err[-2000:])
            return agg
        for f in ("calls", "overlapping_call_pairs", "calls_overlapping_another_thread", "mismatches"):
            tot[f] += info.get(f, 0)
        tot["launches"] += 1
        if info.get("mismatches") and "first_mismatch" not in tot:
            tot["first_mismatch"] = info.get("first_mismatch", {})
    agg["out"] = json.dumps(tot)
    return agg


def w_valgrind(exe, tool, T, iters, seed):
    cmd = ["valgrind", "--tool=" + tool, "--error-exitcode=67", "-q", exe, str(T), str(iters), str(seed), "1"]
    rc, out, err, wall = run_thr(cmd, dict(os.environ, LC_ALL="C"), 1200)
    return {"tool": tool, "T": T, "seed": seed, "rc": rc, "out": out, "reports": valgrind_reports(err, tool) if err != "timeout" else [],
            "err": err[-2000:], "wall": wall}


def main(tier, seed):
    rep = core.Report(PROP, tier, seed)
    cx = _ctx.Ctx(PROP)
    tsan = cx.exe("tsan-thr", driver=("drv/thr.c",), san="tsan")
    plain = cx.exe("plain-thr", driver=("drv/thr.c",), san="plain-O2")
    jobs = []
    reps = 3 if tier == "quick" else 12
    iters = 4000 if tier == "quick" else 20000
    for T in (2, 4, 8, 16):
        for r in range(reps):
            jobs.append((w_tsan, (tsan, T, iters, seed * 100 + r * 7 + T, 1 if r % 3 else 0)))
    # the two foreign back-end source sets (compiled against the adapter of C18, whose own counters are lock-protected) under TSan and
    # at full speed: back-end state that is shared between objects shows as a race / as outcomes that differ from the sequential ones
    SHIM = os.path.join(core.VERIF, "shim", "idn")
    for b in ("idn", "idnkit"):
        kw = dict(driver=("drv/thr.c",), backend=b, extra_inc=(SHIM,), extra_objs_srcs=[os.path.join(SHIM, "adapter.c")])
        ft = cx.exe("tsan-thr-%s" % b, san="tsan", **kw)
        fp = cx.exe("plain-thr-%s" % b, san="plain-O2", **kw)
        for T in (4, 16):
            jobs.append((w_tsan, (ft, T, 1500 if tier == "quick" else 8000, seed * 100 + 70 + T, 1, "std", "tsan-" + b)))
        jobs.append((w_plain, (fp, 8, 3000 if tier == "quick" else 30000, seed * 10 + 7, 3, "std", "plain-" + b)))
    # full-speed runs: 150 cold starts of 8 threads x 40 iterations (lazily initialised state is raced for at every start), and long
    # runs over the IDN-failure pool (messages produced at call time)
    for j in range(4):
        jobs.append((w_plain, (plain, 8, 40, seed * 10 + j, 150 if tier == "quick" else 1500, "std")))
    for T in (4, 16):
        jobs.append((w_plain, (plain, T, 12000 if tier == "quick" else 60000, seed * 10 + T, 4, "idn")))
        jobs.append((w_tsan, (tsan, T, 1500 if tier == "quick" else 10000, seed * 100 + 50 + T, 1, "idn")))
    jobs.append((w_valgrind, (plain, "helgrind", 4, 150 if tier == "quick" else 1500, seed)))
    if tier != "quick":
        jobs.append((w_valgrind, (plain, "helgrind", 8, 800, seed + 1)))
        jobs.append((w_valgrind, (plain, "drd", 4, 1500, seed + 2)))
    calls = overlaps = ovcalls = 0
    foreign = 0
    runs = []
    for res in core.pmap(_run, jobs, nproc=4):
        info = None
        try:
            info = json.loads(res["out"].strip().split("\n")[-1]) if res["out"].strip() else None
        except ValueError:
            info = None
        tag = "%s T=%d seed=%d" % (res["tool"], res["T"], res["seed"])
        if res["rc"] is None:
            rep.violation("hang-under-concurrency/%s" % res["tool"], {"tool": res["tool"], "threads": res["T"], "seed": res["seed"]},
                          {"note": "runner did not finish within its watchdog although the sequential reference pass is bounded"})
            continue
        if info is None or "error" in (info or {}):
            if info is not None and "error" in info:
                # the *sequential* reference pass failed or is not deterministic: not a concurrency verdict
                if not res["reports"]:
                    raise core.Inconclusive("runner failed (%s): %s" % (tag, info))
            elif not res["reports"] and (res["rc"] < 0 or res["rc"] in (134, 139, 66, 67) or "Sanitizer" in res["err"]):
                # the sequential reference (forked child) succeeded, the threaded phase died: crash only under concurrency
                rep.violation("crash-under-concurrency/%s/%s" % (res["tool"], driver.crash_signature(res["err"], res["rc"])),
                              {"tool": res["tool"], "threads": res["T"], "seed": res["seed"]}, {"stderr": res["err"][-1500:]})
            elif not res["reports"]:
                raise core.Inconclusive("runner failed (%s): rc=%s %s %s" % (tag, res["rc"], res["out"][-300:], res["err"][-600:]))
        if info and "calls" in info:
            calls += info["calls"]
            overlaps += info["overlapping_call_pairs"]
            ovcalls += info.get("calls_overlapping_another_thread", 0)
            rep.counters["%s.calls_overlapping_another_thread" % res["tool"]] += info.get("calls_overlapping_another_thread", 0)
            rep.counters["%s.calls" % res["tool"]] += info["calls"]
            rep.counters["%s.overlapping_call_pairs" % res["tool"]] += info["overlapping_call_pairs"]
            rep.counters["%s.runs" % res["tool"]] += 1
            rep.cov.setdefault("thread_counts", set()).add(info["threads"])
            runs.append({"tool": res["tool"], "threads": info["threads"], "calls": info["calls"],
                         "overlapping_call_pairs": info["overlapping_call_pairs"],
                         "distinct_overlapping_kind_pairs": info.get("distinct_overlapping_kind_pairs")})
            if info["mismatches"]:
                fm = info.get("first_mismatch", {})
                rep.violation("outcome-differs-from-sequential/kind%s" % fm.get("kind"),
                              {"threads": info["threads"], "seed": res["seed"], "tool": res["tool"],
                               "input": core.b2s(bytes.fromhex(fm.get("input", ""))) if fm else None},
                              {"mismatches": info["mismatches"], "first": fm})
        for kind, frames, blk in res["reports"]:
            rep.counters["%s.reports" % res["tool"]] += 1
            if frames or res["tool"].startswith("tsan"):
                rep.violation("race/%s/%s" % (kind, "+".join(frames) or "unknown-frames"),
                              {"tool": res["tool"], "threads": res["T"], "seed": res["seed"]}, {"report": blk[:1500]})
            else:
                foreign += 1
    rep.counters["foreign_reports"] = foreign
    rep.require(not (rep.counters["tsan.runs"] == 0 or rep.counters["helgrind.runs"] == 0), "a detector produced no run")
    rep.require(not (overlaps == 0), "no overlapping library calls were observed: the workload was not concurrent")
    rep.samples += runs[:6] + [{"pool": [core.b2s(a) for a in POOL]}]
    rep.distinct_count = 0
    rep.assumptions += ["happens-before race detection covers the partial orders of the executed runs, not all interleavings",
                        "libidn2/libunistring are uninstrumented: races inside them are visible to helgrind/drd only and reports "
                        "without a libeav frame are listed as foreign, not as violations"]
    return rep.finish(calls, ovcalls,
                      "threads x calls on %d shared read-only strings: 13 call kinds (eav_is_email in 4 modes x tld x 4 masks on a per-thread "
                      "eav_t, is_<rfc>_email, is_*_local, domain/IP/TLD validators, failing eav_setup); TSan runs with T in {2,4,8,16} x %d "
                      "seeds (with and without yield/sleep perturbation), helgrind%s; distinct_nontrivial = calls (first 4000 per thread are "
                      "timed) whose clock interval overlapped a call of another thread" % (len(POOL), reps, "" if tier == "quick" else " + drd"),
                      {"builds": cx.builds_info()})


def _run(fn, args):
    return fn(*args)
