"""C15 - diagnostics are truthful: return value vs code, code from the failing validator, code/message name a condition
that holds, IDN message = the IDN library's message, eav_setup on every int class."""
import random
from .. import core, driver, addrgen as AG, monitors, model as _model
from . import addr_common

PROP = "C15"


def w_setup(exe, values):
    import collections
    part = {"counters": collections.Counter(), "viol": [], "samples": [], "distinct": 0, "sets": {}}
    mdl = _model.Model()
    recs, crashes = driver.run_lines_resilient(exe, ["S %d" % v for v in values])
    for idx, sig, err in crashes:
        part["viol"].append(("setup/crash/%s" % sig, {"rfc": values[idx] if idx >= 0 else None}, {"stderr": err[-1200:]}))
    defined = set(mdl.rfc.values())
    inv = mdl.E("INVALID_RFC")
    for v, r in zip(values, recs):
        if r is None:
            continue
        sr, errcode, msg = r
        part["counters"]["setup.calls"] += 1
        if v in defined:
            if sr != 0:
                part["viol"].append(("setup/defined-mode-refused", {"rfc": v}, {"ret": sr}))
        else:
            part["counters"]["setup.undefined"] += 1
            if sr != inv:
                part["viol"].append(("setup/undefined-mode-return", {"rfc": v}, {"ret": sr, "expected": inv}))
            want = [k for k, n in _model.PINNED_MESSAGES.items() if n == "EEAV_INVALID_RFC"][0]
            if errcode != inv or not msg or (msg in _model.PINNED_MESSAGES and msg != want):
                part["viol"].append(("setup/errstr-after-invalid-rfc", {"rfc": v}, {"ret": sr, "errcode": errcode, "message": msg}))
    part["distinct"] = len(set(values))
    part["samples"].append({"source": "setup", "rfc_values": values[:8]})
    return {PROP: part}


def w_setup_sweep(exe, lo, hi, step, add):
    """eav_setup over a whole range of rfc values inside the driver: exactly the defined modes are accepted; every other value is
    refused with EEAV_INVALID_RFC, recorded as the error code, with that code's message."""
    import collections
    part = {"counters": collections.Counter(), "viol": [], "samples": [], "distinct": 0, "sets": {}}
    mdl = _model.Model()
    wit = {"rfc_range": [lo + add, hi + add], "step": step}
    try:
        rec = driver.run_lines(exe, ["S %d %d %d %d" % (lo, hi, step, add)])[0]
    except driver.DriverCrash as c:
        part["viol"].append(("setup/crash/%s" % c.signature(), wit, {"stderr": c.stderr[-1200:]}))
        return {PROP: part}
    defined = set(mdl.rfc.values())
    inv = mdl.E("INVALID_RFC")
    want = [k for k, n in _model.PINNED_MESSAGES.items() if n == "EEAV_INVALID_RFC"][0]
    expect_ok = sorted(v for v in defined if lo + add <= v <= hi + add and (v - lo - add) % step == 0)
    part["counters"]["setup.calls"] += rec["n"]
    part["counters"]["setup.sweep-calls"] += rec["n"]
    for v in rec["ok"]:
        if v not in defined:
            part["viol"].append(("setup/undefined-mode-return", {"rfc": v}, {"ret": 0, "expected": inv}))
    for v in expect_ok:
        if v not in rec["ok"]:
            part["viol"].append(("setup/defined-mode-refused", {"rfc": v}, {}))
    for sr, ec, msg, cnt, first in rec["rej"]:
        part["counters"]["setup.undefined"] += cnt
        if sr != inv:
            part["viol"].append(("setup/undefined-mode-return", {"rfc": first}, {"ret": sr, "expected": inv, "values": cnt}))
        if ec != inv or not msg or (msg in _model.PINNED_MESSAGES and msg != want):
            part["viol"].append(("setup/errstr-after-invalid-rfc", {"rfc": first}, {"ret": sr, "errcode": ec, "message": msg, "values": cnt}))
    part["distinct"] = rec["n"]
    return {PROP: part}


def w_class_messages(pexe):
    """Every TLD class code (also TEST / RETIRED, which no shipped table row produces) through a caller-installed callback with
    allow_tld = 0: the error code must be the class's own and the message must be the one documented for that code."""
    import collections
    from . import c08
    part = {"counters": collections.Counter(), "viol": [], "samples": [], "distinct": 0, "sets": {}}
    mdl = _model.Model()
    for cls in _model.CLASSES:
        rc = mdl.class_number(cls)
        rows = c08.run_policy(pexe, "M %d" % rc)
        import json as _json
        obs = _json.loads(rows[0])
        for m, (ret, err, msg) in enumerate(obs):
            part["counters"]["callback.calls"] += 1
            name = mdl.eeav_name.get(err)
            part["counters"]["code.%s" % name] += 1
            want = mdl.class_errcode(cls)
            w = {"class": cls, "result_code": rc, "mode": driver.MODES[m], "allow_tld": 0}
            if ret != 0 or err != want:
                part["viol"].append(("class-code/%s-reported-as-%s" % (cls, (name or err)), w, {"ret": ret, "errcode": err, "expected": want}))
            if not msg:
                part["viol"].append(("empty-message/TLD_%s" % cls, w, {"message": msg}))
            else:
                mname = _model.PINNED_MESSAGES.get(msg)
                if mname is None:
                    part["counters"]["message.unknown-text"] += 1
                elif mname != "EEAV_TLD_" + cls:
                    part["viol"].append(("untrue-message/TLD_%s-says-%s" % (cls, mname[5:]), w, {"message": msg, "errcode": err}))
    part["distinct"] = len(_model.CLASSES) * 4
    part["samples"].append({"source": "class-callback", "classes": _model.CLASSES})
    return {PROP: part}


def main(tier, seed):
    rng = random.Random(seed)
    vals = [0, 1, 2, 3, 4, 5, -1, -2, 77, 99, 255, 256, 2**31 - 1, -2**31, 65536, -65536]
    vals += [rng.randrange(-2**31, 2**31) for _ in range(200 if tier == "quick" else 5000)]

    def extra_jobs(cx, exe, opts, extra, name):
        jobs = [(w_setup, (exe, vals)), (w_class_messages, (cx.exe("asan-policy", driver=("drv/policy.c",)),))]
        # every value in a wide window around zero (RFC numbers, years, port numbers ... any "meaningful" integer), and the defined
        # modes with every pattern in the upper 16 bits (a narrowing conversion of the field)
        w = 1 << (20 if tier == "quick" else 24)
        for lo in range(-w, w, w // 4):
            jobs.append((w_setup_sweep, (exe, lo, lo + w // 4 - 1, 1, 0)))
        for m in range(0, 8):
            jobs.append((w_setup_sweep, (exe, -(1 << 31), (1 << 31) - 65536, 65536, m)))
        for sh in (8, 12, 20, 24):
            jobs.append((w_setup_sweep, (exe, -(1 << 31), (1 << 31) - (1 << sh) - 8, 1 << sh, 1)))
        # a second pass with allow_tld = 0 and allow_tld = only-special: every classified address is then rejected and must carry
        # the code/message of its own class
        mdl2 = _model.Model()
        addrs = [a for a in AG.address_corpus(tier, seed, mdl2) if b"@" in a and a[a.rfind(b"@") + 1:a.rfind(b"@") + 2] != b"["]
        sub = addrs[seed % 3::3]
        for mask in (0, mdl2.class_bit("SPECIAL")):
            for i in range(0, len(sub), 1500):
                jobs.append((AG.w_addr, (exe, sub[i:i + 1500], [PROP], opts, extra, 1 | 4 | 8, mask, "allow=0x%x" % mask)))
        return jobs

    # default allow_tld of eav_init so that the TLD_<class> codes of the disabled classes appear
    mdl = _model.Model()
    rep, cx, n = addr_common.run(
        PROP, tier, seed, sections=1 | 4 | 8, variants=[("asan", {}, False)], rule="",
        assumptions=["message vocabulary pinned from the documented strings; an unknown text is counted, not judged",
                     "in mode 6531 host-name conditions are evaluated on the A-label string libidn2 produced"],
        extra_jobs=extra_jobs, allow_on=mdl.default_allow)
    # diagnostics along short call sequences on one object (generator and trace monitor of C13): an accepted address right after a
    # rejected one under several allow_tld values (incl. -1) reports "no error"; a rejected eav_setup right after an IDN failure reports
    # the set-up's condition, not the earlier message
    from . import c13
    from .. import histmon as HM
    hexe = cx.exe("asan-hist", driver=("drv/hist.c",))
    P = HM.POOL7
    dprogs = []
    for m in range(4):
        for mask in ("ffffffff", "7ff", "d", "7fffffff", "fffff7ff"):
            for i in range(len(P)):
                for j in (0, 1, 3):
                    if i != j:
                        dprogs.append(["r%d" % m, "s", "t1", "a" + mask, "e%d" % i, "e%d" % j, "m", "r99", "s", "m", "r%d" % m, "s", "e%d" % j, "m"])
        for i in range(len(P)):
            dprogs.append(["r%d" % m, "s", "e%d" % i, "r77", "s", "m", "m"])
    part = c13.w_hist(hexe, P, dprogs, False, "diagnostics-history")
    rep.merge({"counters": {"history." + k: v for k, v in part["counters"].items()},
               "viol": [("history/" + v[0],) + tuple(v[1:]) for v in part["viol"]], "samples": [], "distinct": 0})
    c = rep.counters
    seen = sorted(k[5:] for k in c if k.startswith("code.EEAV_"))
    allc = sorted(mdl.eeav)
    not_seen = [k for k in allc if k not in seen and k != "EEAV_INVALID_RFC"]
    return rep.finish(c["calls"] + c["setup.calls"] + c["callback.calls"], rep.distinct_count,
                      "C01 address corpus x 4 modes x tld off/on with eav_init's default allow_tld; eav_setup with %d int values "
                      "(all defined modes, neighbours, extremes, random); distinct = distinct addresses + distinct rfc values" % len(vals),
                      {"codes_observed": seen, "codes_not_observed": not_seen, "builds": cx.builds_info()})
