"""C17 - build options change exactly what they document and nothing else.

All 8 combinations of RFC6531_FOLLOW_RFC5322 / RFC6531_FOLLOW_RFC20 / LABELS_ALLOW_UNDERSCORE are built (ASan+UBSan) and run on
the same bounded-exhaustive and corpus inputs; the records are joined per input and the documented relation is checked along
each of the 12 edges of the option cube.  The stock Makefile is dry-run to see that the default build has all three off and
that X=ON adds exactly -DX."""
import os
import collections, itertools, random
from concurrent.futures import ThreadPoolExecutor
from .. import core, ctx as _ctx, build, driver, gen, model as _model, addrgen as AG, oracle_local as OL

PROP = "C17"
O5322, O20, OUS = "RFC6531_FOLLOW_RFC5322", "RFC6531_FOLLOW_RFC20", "LABELS_ALLOW_UNDERSCORE"
OPTS = [O5322, O20, OUS]
LTOK = [b"a", b"#", b"~", b'"', b"\\", b".", b" ", b"\t", b"\r", b"\n", b"\x01", b"(", "é".encode()]
DTOK = [b"a", b"1", b"-", b".", b"_", b"!"]
FNS = ["l822", "l5321", "l5322", "l6531"]
RFC20 = b"#^`{|}~"


def combos():
    for n in range(4):
        for c in itertools.combinations(OPTS, n):
            yield frozenset(c)


def vname(c):
    return "asan-opt-" + ("".join(sorted(o[-4:] for o in c)) or "none")


def has_rfc20_outside_quotes(L):
    """L is a valid RFC 5321-style local part: is one of the seven RFC 20 characters outside quotes?"""
    inq = False
    i = 0
    while i < len(L):
        c = L[i]
        if inq:
            if c == 0x5c:
                i += 2
                continue
            if c == 0x22:
                inq = False
        else:
            if c == 0x22:
                inq = True
            elif c in RFC20:
                return True
        i += 1
    return False


def edges():
    for c in combos():
        for x in OPTS:
            if x not in c:
                yield c, x, c | {x}


def w_local(exes, k, prefix_idx):
    part = {"counters": collections.Counter(), "viol": [], "samples": [], "distinct": 0, "sets": {}}
    prefix = b"".join(LTOK[i] for i in prefix_idx)
    strings = [prefix + s for s in gen.enum_strings(LTOK, k)]
    toks = ",".join(t.hex() for t in LTOK)
    R = {}
    for c, exe in exes.items():
        for fn in FNS:
            try:
                R[(c, fn)] = gen.parse_packed(driver.run_lines(exe, ["N %s %d %s %s -" % (fn, k, toks, driver.hx(prefix))], raw=True))
            except driver.DriverCrash as e:
                part["viol"].append(("crash/%s/%s" % (vname(c), e.signature()), {"fn": fn}, {"stderr": e.stderr[-1200:]}))
                return part
    cnt = part["counters"]
    for c, x, cx_ in edges():
        for fn in FNS:
            a, b = R[(c, fn)], R[(cx_, fn)]
            cnt["edge-comparisons"] += len(a)
            if x == OUS or fn != "l6531":
                if a != b:
                    i = next(j for j in range(len(a)) if a[j] != b[j])
                    part["viol"].append(("leak/%s-changes-%s" % (x, fn), {"local_part": core.b2s(strings[i]), "option": x,
                                         "base_build": sorted(c)}, {"off": a[i], "on": b[i]}))
                continue
            for i, L in enumerate(strings):
                if not L:
                    continue
                off, on = a[i] == 0, b[i] == 0
                if x == O20:
                    if not any(ch in RFC20 for ch in L):
                        ok = a[i] == b[i]
                        why = "no-rfc20-char-but-differs"
                    else:
                        ok = on == (off and not has_rfc20_outside_quotes(L))
                        why = "rfc20-relation"
                    if not ok:
                        part["viol"].append(("%s/%s" % (x, why), {"local_part": core.b2s(L), "base_build": sorted(c)},
                                             {"off": a[i], "on": b[i]}))
                elif x == O5322:
                    if not any(ch < 0x21 or ch == 0x7f for ch in L):
                        if a[i] != b[i]:
                            part["viol"].append(("%s/no-control-or-space-but-differs" % x, {"local_part": core.b2s(L),
                                                 "base_build": sorted(c)}, {"off": a[i], "on": b[i]}))
                    if max(L) < 0x80:
                        # pure ASCII: the on-build judges as mode 5322 does (RFC20 exclusions aside)
                        want = R[(cx_, "l5322")][i] == 0
                        if O20 in cx_ and any(ch in RFC20 for ch in L):
                            want = want and not has_rfc20_outside_quotes(L) if want else want
                        if on != want:
                            part["viol"].append(("%s/pure-ascii-not-judged-as-5322" % x, {"local_part": core.b2s(L),
                                                 "base_build": sorted(cx_)}, {"l6531": b[i], "l5322": R[(cx_, "l5322")][i]}))
    part["distinct"] = sum(1 for s in strings if s)
    if strings:
        part["samples"].append({"source": "local-enum", "local_part": core.b2s(strings[len(strings) // 2]), "builds": 8})
    return part


ATOK = [b"a", b"#", b'"', b"\\", b".", b" ", b"\t", b"\r", b"\n", b"\x01", b"("]


def w_ascii_as_5322(exe, build_name, k, prefix_idx):
    """Inside a build with RFC6531_FOLLOW_RFC5322 (and without RFC6531_FOLLOW_RFC20): is_6531_local must decide every
    pure-ASCII local part exactly as is_5322_local of the same build does (the packed verdict strings are compared whole)."""
    part = {"counters": collections.Counter(), "viol": [], "samples": [], "distinct": 0, "sets": {}}
    prefix = b"".join(ATOK[i] for i in prefix_idx)
    toks = ",".join(t.hex() for t in ATOK)
    res = {}
    for fn in ("l6531", "l5322"):
        res[fn] = driver.run_lines(exe, ["N %s %d %s %s -" % (fn, k, toks, driver.hx(prefix))], raw=True)
    a, b = gen.parse_packed(res["l6531"]), gen.parse_packed(res["l5322"])
    part["counters"]["edge-comparisons"] += len(a)
    part["counters"]["ascii-as-5322.strings"] += len(a)
    if [x == 0 for x in a] != [y == 0 for y in b]:
        strings = [prefix + s for s in gen.enum_strings(ATOK, k)]
        for i, (x, y) in enumerate(zip(a, b)):
            if (x == 0) != (y == 0) and strings[i]:
                part["viol"].append(("%s/pure-ascii-not-judged-as-5322/deep" % O5322, {"local_part": core.b2s(strings[i]), "build": build_name},
                                     {"l6531": x, "l5322": y}))
    part["distinct"] = len(a)
    return part


def structured_local_parts():
    """1-4 words, each an atom / atom with an RFC 20 character / quoted / quoted with an RFC 20 character / quoted with blanks or
    controls - the shapes whose treatment the three options change."""
    words = [b"a", b"b1", b"#", b"a{b", b"~", b'"a"', b'"#"', b'"a b"', b'" a"', b'"a\x0bb"', b'"\x0c"', b'"a\tb"', b'"\\#"', b'""', "é".encode(), b'"a\x01"']
    out = set()
    for n in range(1, 4):
        for ws in itertools.product(words, repeat=n):
            out.add(b".".join(ws))
    for a in words:
        for b in words:
            out.add(a + b".x." + b)
            out.add(b'"q".' + a + b"." + b + b'."r"')
    return sorted(out)


def w_oracle_in_build(exe, c, strings, src):
    """R-LOCAL parameterised with the build's options judges the four scanners inside that build.  Scope of the statement: with
    RFC6531_FOLLOW_RFC5322 only *pure-ASCII* local parts are re-specified (as mode 5322); for a non-ASCII local part that contains
    whitespace or control bytes the grammar verdict is not judged - but whatever the build, mode 6531 never accepts ill-formed
    UTF-8 (the default build rejects it and no option documents otherwise)."""
    from .. import localgen as LG
    opts = frozenset(x for x in c if x != OUS)
    part = {"counters": collections.Counter(), "viol": [], "samples": [], "distinct": 0, "sets": {}}
    strings = [b for b in strings if b and b"\x00" not in b]
    recs, crashes = driver.run_lines_resilient(exe, ["L " + driver.hx(b) for b in strings])
    for idx, sig, err in crashes:
        b = strings[idx] if idx >= 0 else b""
        part["viol"].append(("%s/crash/%s" % (vname(c), sig), {"local_part": core.b2s(b), "hex": b.hex()}, {"stderr": err[-1500:]}))
    for b, r in zip(strings, recs):
        if r is None:
            continue
        for mi, mode in enumerate(("822", "5321", "5322", "6531")):
            got = r[mi] == 0
            part["counters"]["edge-comparisons"] += 1
            if mode == "6531" and O5322 in opts and max(b) >= 0x80 and any(ch < 0x21 or ch == 0x7f for ch in b):
                part["counters"]["oracle-in-build.utf8-only"] += 1
                if got and OL.utf8_symbols(b) is None:
                    part["viol"].append(("%s/6531/accepts-ill-formed-utf8" % vname(c), {"build": sorted(c), "local_part": core.b2s(b), "hex": b.hex()},
                                         {"rc": r[mi], "source": src}))
                continue
            part["counters"]["oracle-in-build.judged"] += 1
            exp = OL.accepts(mode, b, opts)
            if got != exp:
                key = ("accepts-invalid/%s" % LG.fail_point(mode, b, opts)) if got else ("rejects-valid/err%d" % -r[mi])
                part["viol"].append(("%s/%s/%s" % (vname(c), mode, key), {"build": sorted(c), "mode": mode, "local_part": core.b2s(b), "hex": b.hex()},
                                     {"rc": r[mi], "reference_accepts": exp, "source": src}))
    part["distinct"] = len(set(strings))
    if strings:
        part["samples"].append({"source": src, "build": vname(c), "local_part": core.b2s(strings[len(strings) // 2][:80])})
    return part


def w_domain(exes, k, prefix_idx):
    part = {"counters": collections.Counter(), "viol": [], "samples": [], "distinct": 0, "sets": {}}
    prefix = b"".join(DTOK[i] for i in prefix_idx)
    strings = [prefix + s for s in gen.enum_strings(DTOK, k)]
    toks = ",".join(t.hex() for t in DTOK)
    R = {}
    for c, exe in exes.items():
        for fn in ("adom", "udom0"):
            R[(c, fn)] = gen.parse_packed(driver.run_lines(exe, ["N %s %d %s %s -" % (fn, k, toks, driver.hx(prefix))], raw=True))
    cnt = part["counters"]
    us = [i for i, s in enumerate(strings) if b"_" in s]
    sub = {}
    for c in {e[0] for e in edges() if e[1] == OUS}:
        recs = driver.run_lines(exes[c], ["D " + driver.hx(strings[i].replace(b"_", b"u")) for i in us])
        sub[c] = {i: (r[0], r[1]) for i, r in zip(us, recs)}
    for c, x, cx_ in edges():
        for fi, fn in enumerate(("adom", "udom0")):
            a, b = R[(c, fn)], R[(cx_, fn)]
            cnt["edge-comparisons"] += len(a)
            if x != OUS:
                if a != b:
                    i = next(j for j in range(len(a)) if a[j] != b[j])
                    part["viol"].append(("leak/%s-changes-%s" % (x, fn), {"domain": core.b2s(strings[i]), "option": x},
                                         {"off": a[i], "on": b[i]}))
                continue
            for i, D in enumerate(strings):
                if not D:
                    continue
                if b"_" not in D:
                    if a[i] != b[i]:
                        part["viol"].append(("%s/no-underscore-but-differs/%s" % (x, fn), {"domain": core.b2s(D)}, {"off": a[i], "on": b[i]}))
                else:
                    want = sub[c][i][fi] == 0
                    if (b[i] == 0) != want:
                        part["viol"].append(("%s/underscore-relation/%s" % (x, fn), {"domain": core.b2s(D)},
                                             {"on": b[i], "off_with_u_for_underscore": sub[c][i][fi]}))
                    if a[i] == 0:
                        part["viol"].append(("%s/off-build-accepts-underscore/%s" % (x, fn), {"domain": core.b2s(D)}, {"off": a[i]}))
    part["distinct"] = sum(1 for s in strings if s)
    if strings:
        part["samples"].append({"source": "domain-enum", "domain": core.b2s(strings[len(strings) // 2]), "builds": 8})
    return part


def w_addr(exes, addrs):
    part = {"counters": collections.Counter(), "viol": [], "samples": [], "distinct": 0, "sets": {}}
    lines = [driver.A_line(a, sections=1) for a in addrs]
    R = {}
    for c, exe in exes.items():
        recs, crashes = driver.run_lines_resilient(exe, lines)
        for idx, sig, err in crashes:
            part["viol"].append(("crash/%s/%s" % (vname(c), sig), {"address": core.b2s(addrs[idx]) if idx >= 0 else ""}, {"stderr": err[-1200:]}))
        R[c] = recs
    cnt = part["counters"]
    us_check = set()
    for c, x, cx_ in edges():
        for i, s in enumerate(addrs):
            ra, rb = R[c][i], R[cx_][i]
            if ra is None or rb is None:
                continue
            cnt["edge-comparisons"] += 1
            at = s.rfind(b"@")
            L, D = (s[:at], s[at + 1:]) if at >= 0 else (s, b"")
            for k in ra["hl"]:
                m = int(k) // 2
                x0, x1 = ra["hl"][k], rb["hl"][k]
                if x0 == x1:
                    continue
                allowed = False
                if x == O20 and m == 3 and any(ch in RFC20 for ch in L):
                    allowed = (not x1[0]) and bool(x0[0]) or (not x0[0] and not x1[0])
                elif x == O5322 and m == 3 and any(ch < 0x21 or ch == 0x7f for ch in L):
                    allowed = True
                elif x == OUS and b"_" in D:
                    allowed = True
                    us_check.add(i)
                if not allowed:
                    part["viol"].append(("leak/%s-changes-record/%s" % (x, driver.MODES[m]),
                                         {"address": core.b2s(s), "option": x, "base_build": sorted(c), "mode": driver.MODES[m]},
                                         {"off": x0, "on": x1}))
                    break
    # LABELS_ALLOW_UNDERSCORE: "additionally accepts exactly the host names that become valid when '_' counts as a letter":
    # decision(on-build, s) == decision(off-build, s with 'u' for every '_' of the domain), ASCII modes, tld off
    idx = sorted(i for i in range(len(addrs)) if b"_" in addrs[i][addrs[i].rfind(b"@") + 1:] and addrs[i].rfind(b"@") > 0
                 and addrs[i][addrs[i].rfind(b"@") + 1:addrs[i].rfind(b"@") + 2] != b"[")
    if idx:
        none = frozenset()
        sub = []
        for i in idx:
            s = addrs[i]
            at = s.rfind(b"@")
            sub.append(s[:at + 1] + s[at + 1:].replace(b"_", b"u"))
        rs, _ = driver.run_lines_resilient(exes[none], [driver.A_line(a, sections=1, modes=7, tlds=1) for a in sub])
        for c in exes:
            if OUS not in c:
                continue
            for i, r0 in zip(idx, rs):
                r1 = R[c][i]
                if r0 is None or r1 is None:
                    continue
                for m in range(3):
                    cnt["underscore-relation.compared"] += 1
                    if bool(r1["hl"][str(2 * m)][0]) != bool(r0["hl"][str(2 * m)][0]):
                        part["viol"].append(("%s/underscore-relation/address/%s" % (OUS, driver.MODES[m]),
                                             {"address": core.b2s(addrs[i]), "build": sorted(c), "mode": driver.MODES[m]},
                                             {"on_build": r1["hl"][str(2 * m)][:2], "off_build_with_u_for_underscore": r0["hl"][str(2 * m)][:2]}))
    part["distinct"] = len(set(addrs))
    if addrs:
        part["samples"].append({"source": "addresses", "address": core.b2s(addrs[len(addrs) // 2][:100]), "builds": 8})
    return part


def main(tier, seed):
    rep = core.Report(PROP, tier, seed)
    cx = _ctx.Ctx(PROP)
    mdl = _model.Model()
    # --- the stock Makefile: default has all three off, X=ON adds exactly -DX
    stock, line = build.stock_make_defs()
    on = [o for o in OPTS if "-D" + o in stock]
    rep.counters["makefile.dry-runs"] += 1
    if not line:
        raise core.Inconclusive("could not read the compile command from 'make -n'")
    if on:
        rep.violation("makefile/default-build-has-option-on/%s" % "+".join(on), {"make": "make -n -B src/is_6531_local.o"}, {"defs": stock})
    for o in OPTS:
        d, _ = build.stock_make_defs(["%s=ON" % o])
        rep.counters["makefile.dry-runs"] += 1
        got = sorted(x for x in OPTS if "-D" + x in d)
        if got != [o] or sorted(set(d) - {"-D" + o}) != sorted(set(stock) - {"-D" + x for x in on}):
            rep.violation("makefile/%s=ON-adds-%s" % (o, "+".join(got) or "nothing"), {"make": "make %s=ON" % o}, {"defs": d, "stock": stock})
    # --- every object of the shared AND the static library, switch given on the command line and through the environment
    def audit(tag, make_args, env_extra, want):
        lines = build.make_compile_lines(make_args, env_extra)
        rep.counters["makefile.dry-runs"] += 1
        rep.counters["makefile.compile-lines"] += len(lines)
        libsrc = [(f, d, l) for f, d, l in lines if f.startswith(("src/", "partial/"))]
        if len(libsrc) < 15:
            raise core.Inconclusive("dry run of the Makefile shows only %d library compile commands (%s)" % (len(libsrc), tag))
        for f, defs, l in libsrc:
            got = sorted(o for o in OPTS if o in defs)
            if got != sorted(want):
                rep.violation("makefile/%s/object-built-with-%s" % (tag, "+".join(got) or "no-option"),
                              {"make": tag, "source": f}, {"expected": sorted(want), "command": l.strip()[:300]})
    audit("default", [], None, [])
    for o in OPTS:
        audit("%s=ON" % o, ["%s=ON" % o], None, [o])
        audit("env:%s=ON" % o, [], {o: "ON"}, [o])
    # every `make VAR=...` invocation the README documents, combined with every switch: variables the user is told to put on the
    # command line (DEFS, LIBS, FORCE_IDN) must not make a switch ineffective
    import shlex
    documented = []
    try:
        for l in open(os.path.join(build.REPO, "README.md"), encoding="utf-8", errors="replace"):
            l = l.strip()
            if l.startswith("% make") or l.startswith("$ make") or l.startswith("make "):
                try:
                    words = shlex.split(l.lstrip("%$ "))[1:]
                except ValueError:
                    continue
                assigns = [w for w in words if "=" in w and not w.startswith("-") and w.split("=", 1)[0] not in ("DESTDIR", "PREFIX")]
                if assigns and assigns not in documented:
                    documented.append(assigns)
    except OSError:
        pass
    rep.counters["makefile.documented-invocations"] = len(documented)
    for assigns in documented:
        base_on = [a.split("=", 1)[0] for a in assigns if a.split("=", 1)[0] in OPTS and a.endswith("=ON")]
        rest = [a for a in assigns if a.split("=", 1)[0] not in OPTS]
        tag0 = "readme:" + " ".join(assigns)
        audit(tag0, assigns, None, base_on)
        if rest:
            for o in OPTS:
                audit("readme:%s %s=ON" % (" ".join(rest), o), rest + ["%s=ON" % o], None, [o])
    # --- the eight builds
    exes = {}
    with ThreadPoolExecutor(max_workers=4) as ex:
        futs = {c: ex.submit(cx.exe, vname(c), defs=sorted(c), use_stock_options=False) for c in combos()}
        for c, f in futs.items():
            exes[c] = f.result()
    jobs = []
    kl = 4 if tier == "quick" else 5
    jobs.append((w_local, (exes, 1, ())))
    for p in itertools.product(range(len(LTOK)), repeat=2):
        jobs.append((w_local, (exes, kl - 2, p)))
    ka = 6 if tier == "quick" else 7
    for c in (frozenset([O5322]), frozenset([O5322, OUS])):
        for p in itertools.product(range(len(ATOK)), repeat=2):
            jobs.append((w_ascii_as_5322, (exes[c], vname(c), ka - 2, p)))
    from .. import localgen as LG
    slp = structured_local_parts()
    for c in combos():
        fo = frozenset(x for x in c if x != OUS)
        strings = sorted(set(slp) | set(LG.conformance_strings("6531", fo)) | set(LG.byte_suite("6531", fo)[::1 if tier != "quick" else 2]))
        for i in range(0, len(strings), 6000):
            jobs.append((w_oracle_in_build, (exes[c], c, strings[i:i + 6000], "oracle")))
        rr = random.Random(seed * 131 + len(c))
        rs = LG.random_strings("6531", rr, 150 if tier == "quick" else 1500, 400, fo)
        jobs.append((w_oracle_in_build, (exes[c], c, rs, "random")))
    kd = 6 if tier == "quick" else 7
    jobs.append((w_domain, (exes, 1, ())))
    for p in itertools.product(range(len(DTOK)), repeat=2):
        jobs.append((w_domain, (exes, kd - 2, p)))
    addrs = AG.address_corpus(tier, seed, mdl)
    extra = []
    rng = random.Random(seed)
    for l in (b"a#b", b"#", b'"#"', b'a."#".b', b"{a}", b"a|b", b"a~", b"`a", b"a^b", b'"a b"', b'"a\x01b"', b'" a"', b"a_b", b'"\t"'):
        for d in (b"a.com", b"a_b.com", b"_a.com", b"a.b_c", "почта.рф".encode(), b"[1.2.3.4]", b"xn--a_b.com", b"a_.com"):
            extra.append(l + b"@" + d)
    # long labels with underscores (a label must stay <= 63 whatever it is made of)
    for n in (62, 63, 64, 65, 70):
        for lab in (b"a" * (n - 1) + b"_", b"_" * n, b"a" * 63 + b"_" * max(0, n - 63), (b"a_" * n)[:n], b"_" + b"a" * (n - 1), b"a" * 31 + b"_" + b"b" * (n - 32)):
            for tail in (b".com", b"", b".b_c", b"."):
                extra.append(b"x@" + lab + tail)
                extra.append(b"x@m." + lab + tail)
    addrs = sorted(set(addrs) | set(extra))
    if tier == "quick":
        addrs = addrs[::2] + extra
    for i in range(0, len(addrs), 1000):
        jobs.append((w_addr, (exes, addrs[i:i + 1000])))
    for part in core.pmap(_run, jobs):
        rep.merge(part)
    c = rep.counters
    rep.assumptions += ["with RFC6531_FOLLOW_RFC5322 only pure-ASCII local parts are specified; non-ASCII + whitespace mixes are not judged",
                        "the LABELS_ALLOW_UNDERSCORE relation uses the off-build's verdict on the same string with 'u' for '_'"]
    return rep.finish(c["edge-comparisons"], rep.distinct_count,
                      "8 option builds x {all local parts to length %d over 13 tokens through 4 validators, all domains to length %d over 6 "
                      "tokens through 2 validators, %d addresses (C01 corpus + option-sensitive extras) x 4 modes x tld off/on}; relations "
                      "checked along the 12 edges of the option cube; 4 Makefile dry runs; distinct = inputs" % (kl, kd, len(addrs)),
                      {"builds": cx.builds_info(), "edges": 12})


def _run(fn, args):
    return fn(*args)
