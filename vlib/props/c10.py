"""C10 - IDN: U-label and A-label spellings of a domain are treated identically (oracle-free relations + idn2 anchor)."""
import collections, random
from .. import core, ctx as _ctx, tldgen as TG, model as _model, driver, gen, domgen, oracle_domain as OD
from ..driver import MODES

PROP = "C10"


def w_pairs(exe, pairs, src):
    part = TG.new_part()
    cnt = part["counters"]
    mdl = _model.Model()
    IDN = mdl.E("IDN_ERROR")
    lines = []
    for U, A in pairs:
        lines.append(driver.A_line(b"x@" + U, sections=1 | 4 | 8, modes=8, tlds=3, allow=mdl.all_bits))
        lines.append(driver.A_line(b"x@" + A, sections=1, modes=15, tlds=3, allow=mdl.all_bits))
    recs, crashes = driver.run_lines_resilient(exe, lines)
    for idx, sig, err in crashes:
        part["viol"].append(("crash/%s" % sig, {"op": lines[idx] if idx >= 0 else ""}, {"stderr": err[-1500:]}))
    for i, (U, A) in enumerate(pairs):
        ru, ra = recs[2 * i], recs[2 * i + 1]
        if ru is None or ra is None:
            continue
        cnt["pairs"] += 1
        dom = ru.get("dom")
        i2rc, i2 = (dom[8], dom[9]) if dom else (None, None)
        if i2rc != 0:
            cnt["pairs.idn-library-rejects-u-form"] += 1     # not IDNA2008-valid for this libidn2: outside the quantifier
            continue
        if bytes.fromhex(i2) != OD._lower_ascii(A):
            cnt["pairs.anchor-mismatch"] += 1                # generator's Punycode differs from libidn2's: not judged
            part["sets"].setdefault("anchor_mismatch_samples", set()).add(core.b2s(U)[:60])
            continue
        cnt["pairs.judged"] += 1
        for t in (0, 1):
            hu, ha = ru["hl"][str(6 + t)], ra["hl"][str(6 + t)]
            cu, ca = hu[:2] + hu[3:7], ha[:2] + ha[3:7]     # ret, errcode, flags, rc
            if cu != ca:
                part["viol"].append(("u-vs-a/6531/%s" % ("tld" if t else "syntax"),
                                     {"u_spelling": core.b2s(U), "a_spelling": core.b2s(A)},
                                     {"u": hu, "a": ha, "tld_check": t, "source": src}))
            for mi in range(3):
                hm = ra["hl"][str(mi * 2 + t)]
                if hm[0] != ha[0] or hm[6] != ha[6] or hm[1] != ha[1]:
                    part["viol"].append(("a-label/%s-differs-from-6531" % MODES[mi],
                                         {"a_spelling": core.b2s(A), "mode": MODES[mi]},
                                         {"ascii_mode": hm, "6531": ha, "tld_check": t, "source": src}))
    part["distinct"] = len(pairs)
    if pairs:
        part["samples"].append({"source": src, "u_spelling": core.b2s(pairs[0][0]), "a_spelling": core.b2s(pairs[0][1])})
    return part


def w_invalid_pairs(exe, pairs, src):
    """U spelling refused by the IDN library for an IDNA violation  =>  its Punycode (A-label) spelling is refused in mode 6531 as
    well (the ASCII modes know nothing about IDNA and are not judged here).  If this libidn2 accepts the U spelling after all,
    the pair falls back to the ordinary U == A equivalence."""
    part = TG.new_part()
    cnt = part["counters"]
    mdl = _model.Model()
    lines = []
    for U, A in pairs:
        lines.append(driver.A_line(b"x@" + U, sections=1 | 4 | 8, modes=8, tlds=3, allow=mdl.all_bits))
        lines.append(driver.A_line(b"x@" + A, sections=1 | 4 | 8, modes=8, tlds=3, allow=mdl.all_bits))
    recs, crashes = driver.run_lines_resilient(exe, lines)
    for idx, sig, err in crashes:
        part["viol"].append(("crash/%s" % sig, {"op": lines[idx] if idx >= 0 else ""}, {"stderr": err[-1500:]}))
    for i, (U, A) in enumerate(pairs):
        ru, ra = recs[2 * i], recs[2 * i + 1]
        if ru is None or ra is None or not ru.get("dom") or not ra.get("dom"):
            continue
        cnt["invalid-pairs"] += 1
        urc = ru["dom"][8]
        for t in (0, 1):
            hu, ha = ru["hl"][str(6 + t)], ra["hl"][str(6 + t)]
            if urc != 0:
                cnt["invalid-pairs.u-refused-by-idn-library"] += 1
                if hu[0]:
                    part["viol"].append(("invalid/u-spelling-accepted", {"u_spelling": core.b2s(U)}, {"6531": hu, "idn2_rc": urc, "source": src}))
                if ha[0]:
                    part["viol"].append(("invalid/a-spelling-accepted-while-u-spelling-violates-idna",
                                         {"u_spelling": core.b2s(U), "a_spelling": core.b2s(A)},
                                         {"6531_on_a": ha, "idn2_rc_on_u": urc, "idn2_rc_on_a": ra["dom"][8], "tld_check": t, "source": src}))
            else:
                cnt["invalid-pairs.u-accepted-by-this-libidn2"] += 1
                if bytes.fromhex(ru["dom"][9]) == OD._lower_ascii(A) and hu[:2] + hu[3:7] != ha[:2] + ha[3:7]:
                    part["viol"].append(("u-vs-a/6531/%s" % ("tld" if t else "syntax"), {"u_spelling": core.b2s(U), "a_spelling": core.b2s(A)},
                                         {"u": hu, "a": ha, "source": src}))
    part["distinct"] = len(pairs)
    if pairs:
        part["samples"].append({"source": src, "u_spelling": core.b2s(pairs[0][0]), "a_spelling": core.b2s(pairs[0][1])})
    return part


def w_ascii(exe, doms, src):
    """all-ASCII domains: 6531 accepts only what the ASCII modes accept, same class; if it rejects what they accept the
    reason is an IDN-library error."""
    part = TG.new_part()
    cnt = part["counters"]
    mdl = _model.Model()
    IDN = mdl.E("IDN_ERROR")
    lines = [driver.A_line(b"x@" + d, sections=1, modes=15, tlds=3, allow=mdl.all_bits) for d in doms]
    recs, crashes = driver.run_lines_resilient(exe, lines)
    for idx, sig, err in crashes:
        part["viol"].append(("crash/%s" % sig, {"domain": core.b2s(doms[idx]) if idx >= 0 else ""}, {"stderr": err[-1500:]}))
    for d, r in zip(doms, recs):
        if r is None:
            continue
        for t in (0, 1):
            h6 = r["hl"][str(6 + t)]
            for mi in range(3):
                hm = r["hl"][str(mi * 2 + t)]
                cnt["ascii.compared"] += 1
                if h6[0] and (not hm[0] or hm[6] != h6[6]):
                    part["viol"].append(("ascii/6531-accepts-more-than-%s" % MODES[mi], {"domain": core.b2s(d)},
                                         {"6531": h6, MODES[mi]: hm, "tld_check": t, "source": src}))
                if not h6[0] and hm[0]:
                    if h6[1] == IDN:
                        cnt["ascii.idn-exemption"] += 1
                    else:
                        part["viol"].append(("ascii/6531-rejects-without-idn-error", {"domain": core.b2s(d)},
                                             {"6531": h6, MODES[mi]: hm, "tld_check": t, "source": src}))
        # in one mode the *syntactic* verdict cannot depend on tld_check: what is accepted without TLD checking can only be refused for
        # its TLD (class not allowed, unknown TLD, not a FQDN) with it, and what is refused without it stays refused
        for mi in range(4):
            off, on = r["hl"][str(mi * 2)], r["hl"][str(mi * 2 + 1)]
            cnt["tld-switch.compared"] += 1
            name = mdl.eeav_name.get(on[1], "")
            if off[0] and not on[0] and not (name.startswith("EEAV_TLD_") or name == "EEAV_DOMAIN_NOT_FQDN"):
                part["viol"].append(("ascii/%s-syntax-verdict-depends-on-tld_check" % MODES[mi], {"domain": core.b2s(d), "mode": MODES[mi]},
                                     {"tld_off": off, "tld_on": on, "source": src}))
            if not off[0] and on[0]:
                part["viol"].append(("ascii/%s-refused-without-tld-check-accepted-with-it" % MODES[mi], {"domain": core.b2s(d), "mode": MODES[mi]},
                                     {"tld_off": off, "tld_on": on, "source": src}))
    part["distinct"] = len(set(doms))
    return part


def w_negative(exe, doms, src, judge=True):
    part = TG.new_part()
    cnt = part["counters"]
    lines = [driver.A_line(b"x@" + d, sections=1 | 4 | 8, modes=8, tlds=3) for d in doms]
    recs, crashes = driver.run_lines_resilient(exe, lines)
    for idx, sig, err in crashes:
        part["viol"].append(("crash/%s" % sig, {"domain": core.b2s(doms[idx]) if idx >= 0 else ""}, {"stderr": err[-1500:]}))
    for d, r in zip(doms, recs):
        if r is None:
            continue
        for t in (0, 1):
            h = r["hl"][str(6 + t)]
            cnt["negative.calls" if judge else "robustness.calls"] += 1
            if h[0] and judge:
                part["viol"].append(("negative/accepted", {"domain": core.b2s(d), "hex": d.hex()},
                                     {"6531": h, "idn2_direct": r["dom"][8:10] if r.get("dom") else None, "source": src}))
    part["distinct"] = len(set(doms))
    return part


def main(tier, seed):
    rep = core.Report(PROP, tier, seed)
    cx = _ctx.Ctx(PROP)
    exe = cx.exe("asan")
    mdl = _model.Model()
    rng = random.Random(seed)
    pairs = TG.idn_domains(tier, rng, mdl)
    for u, a, cls in TG.idn_tld_pairs(mdl):
        pairs.append((b"mail." + u, b"mail." + a))
        pairs.append((u, a))
    # long, repetitive labels of 2-, 3- and 4-octet code points: the U spelling grows to 3-4 octets per character (beyond 765 / 1000
    # octets) while the A spelling stays within 63 / 253 - any fixed-size copy or length pre-check of the U form shows here
    for cp in (0x20000, 0x20bb7, 0x4e2d, 0xac00, 0x436):
        for reps in (10, 20, 30, 40, 47, 50, 53, 56, 59):
            lab = chr(cp) * reps
            alab = b"xn--" + lab.encode("punycode")
            if len(alab) > 63:
                continue
            for nl in (1, 2, 3, 4, 5):
                for tld in (b"com", b"org"):
                    A = b".".join([alab] * nl) + b"." + tld
                    if len(A) <= 253:
                        pairs.append((b".".join([lab.encode("utf-8")] * nl) + b"." + tld, A))
    jobs = [(w_pairs, (exe, pairs[i:i + 800], "idn")) for i in range(0, len(pairs), 800)]
    # all-ASCII domains of the C04/C07 generators
    asc = set(domgen.host_pool_len()) | {d for d in gen.corpus_domains() if max(d) < 0x80}
    # ASCII names IDNA2008 has an opinion about: hyphens in positions 3-4, A-labels in upper / mixed case, bogus Punycode
    asc |= {b"ab--cd.com", b"a.ab--cd.org", b"XN--A.com", b"Xn--wgv71a119e-.jp", b"xn--a.com", b"XN--P1AI.com", b"a.xN--90ais", b"xn--.com", b"xn---a.com",
            b"ab--.com", b"--ab.com", b"a--b.com", b"xn--80ak6aa92e.COM", b"XN--80AK6AA92E.com", b"xn--zzzzzzzzzz.com", b"www.xn--a-.example.org"}
    asc |= {b"".join(p) for p in __import__("itertools").product([b"a", b"1", b"-", b".", b"_", b"A"], repeat=4)}
    tl = TG.tld_domains("quick", rng, mdl)
    asc |= set(rng.sample(tl, min(len(tl), 6000 if tier == "quick" else 60000)))
    asc |= set(TG.special_domains("quick", rng)[::7])
    asc = sorted(d for d in asc if d and b"@" not in d and d[:1] != b"[" and max(d) < 0x80)
    jobs += [(w_ascii, (exe, asc[i:i + 2000], "ascii")) for i in range(0, len(asc), 2000)]
    neg = list(TG.NEGATIVE_IDN)
    for d in list(neg):
        neg += [b"a." + d, d.replace(b".com", b".xn--p1ai")]
    jobs.append((w_negative, (exe, sorted(set(neg)), "negative")))
    ip = TG.invalid_idn_pairs(tier, rng)
    jobs += [(w_invalid_pairs, (exe, ip[i:i + 400], "invalid-u-labels")) for i in range(0, len(ip), 400)]
    jobs.append((w_negative, (exe, sorted(set(TG.IGNORABLE_IDN)), "ignorable", False)))
    for part in core.pmap(_run, jobs):
        rep.merge(part)
    c = rep.counters
    rep.require(not (c["pairs.judged"] < 0.5 * c["pairs"]), "fewer than half of the generated U/A pairs were judged (%d of %d)" % (c["pairs.judged"], c["pairs"]))
    rep.assumptions += ["IDNA2008-valid labels are approximated by letter pools of 8 scripts; a pair is judged only if this libidn2 "
                        "converts the U spelling and the result equals the Punycode computed in Python (anchor)",
                        "scripts with contextual rules are not generated"]
    return rep.finish(c["pairs"] * 2 + c["ascii.compared"] + c["negative.calls"], rep.distinct_count,
                      "%d U/A domain pairs (1-4 labels from 8 script pools, ASCII/non-ASCII mixes, all 169 IDN TLDs), %d all-ASCII "
                      "domains (length/boundary pools, corpus, TLD and reserved-domain generators, all 4-strings over 6 classes), "
                      "%d IDNA-invalid domains; tld off and on; distinct = pairs + distinct domains" % (len(pairs), len(asc), len(set(neg))),
                      {"builds": cx.builds_info()})


def _run(fn, args):
    return fn(*args)
