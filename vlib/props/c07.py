"""C07 - TLD class equals the shipped IANA table, matched on the whole last label (all modes, U- and A-label TLDs)."""
import random
from .. import core, ctx as _ctx, tldgen as TG, model as _model

PROP = "C07"


def main(tier, seed):
    rep = core.Report(PROP, tier, seed)
    cx = _ctx.Ctx(PROP)
    exe = cx.exe("asan")
    mdl = _model.Model()
    rng = random.Random(seed)
    doms = TG.tld_domains(tier, rng, mdl)
    jobs = []
    for i in range(0, len(doms), 2500):
        jobs.append((TG.w_tld, (exe, doms[i:i + 2500], "tld")))
    labels = sorted({d.split(b".")[-1] for d in doms})
    for i in range(0, len(labels), 5000):
        jobs.append((TG.w_istld, (exe, labels[i:i + 5000], "labels")))
    pairs = TG.idn_tld_pairs(mdl)
    for i in range(0, len(pairs), 30):
        jobs.append((TG.w_uforms, (exe, pairs[i:i + 30], "idn-tlds")))
    for part in core.pmap(_run, jobs):
        rep.merge(part)
    c = rep.counters
    rep.require(not (c["uforms.pairs"] == 0 or c["is_tld.hit"] < len(mdl.rows)), "table rows not all exercised (%d hits, %d rows)" % (c["is_tld.hit"], len(mdl.rows)))
    rep.assumptions += ["R-TLD = name/class columns parsed from the text of src/auto_tld.c (C11 ties that table to the CSV)",
                        "domains with a root dot are outside the statement and are not judged"]
    return rep.finish(c["lookups"] + c["is_tld.calls"] + c["uforms.pairs"], rep.distinct_count,
                      "all %d table rows x case forms x preceding labels, every proper prefix / one-character extension / "
                      "substitution / neighbour splice of every row, random unlisted labels, single-label forms, in 4 modes "
                      "(high- and low-level API, tld on); is_tld() directly on every last label; U-label vs A-label spelling of "
                      "the %d IDN TLDs in mode 6531; distinct = distinct domains/labels" % (len(mdl.rows), len(pairs)),
                      {"table_rows": len(mdl.rows), "builds": cx.builds_info()})


def _run(fn, args):
    return fn(*args)
