"""C20 - eav CLI: robust on any file, one verdict per line, agrees with the library.

The tool is built as shipped (tool objects + shared libeav.so, both ASan+UBSan) and run on generated files; its stdout/stderr/
exit status are checked against a 15-line model of the documented trimming plus the stand-alone library's verdict and message
for every resulting address (default settings)."""
import threading, time, collections, os, random, re, resource, subprocess
from .. import core, ctx as _ctx, build, driver, gen, model as _model, addrgen as AG

PROP = "C20"


def model_lines(data):
    """File bytes -> list of (address bytes, raw line) the tool must judge, in order."""
    out = []
    if not data:
        return out
    parts = data.split(b"\n")
    lines = [p + b"\n" for p in parts[:-1]]
    if parts[-1] != b"":
        lines.append(parts[-1])
    for raw in lines:
        l = raw
        if l.endswith(b"\r\n"):
            l = l[:-2]
        elif l.endswith(b"\n"):
            l = l[:-1]
        l = l.split(b"\x00")[0]           # the tool works on C strings
        if l[:1] == b"#":
            continue
        if l[:1] == b" ":
            l = l[1:]
        if l[-1:] in (b" ", b"\t"):
            l = l[:-1]
        out.append((l, raw))
    return out


def is_clean_utf8(b):
    try:
        s = b.decode("utf-8")
    except UnicodeDecodeError:
        return False
    return all(ord(c) >= 0x20 and not 0x7f <= ord(c) <= 0x9f for c in s)


def make_files(tier, seed, mdl):
    rng = random.Random(seed)
    addrs = AG.address_corpus("quick", seed, mdl)
    short = [a for a in addrs if len(a) < 200 and b"\n" not in a]
    valid = [a for a in gen.corpus_addresses() if b"\n" not in a]
    shapes = []

    def line():
        r = rng.random()
        if r < 0.10:
            return b""
        if r < 0.16:
            return rng.choice([b" ", b"  ", b"\t", b" \t", b"   ", b"\t\t"])
        if r < 0.24:
            return b"#" + rng.choice(short)[:40].replace(b"\n", b"")
        if r < 0.50:
            return rng.choice(valid)
        if r < 0.72:
            return rng.choice(short)
        if r < 0.78:
            return b" " + rng.choice(valid) + rng.choice([b" ", b"\t", b"", b"  "])
        if r < 0.83:
            n = rng.choice([300, 1000, 2040, 2047, 2048, 2049, 3000, 8192])
            return (rng.choice([b"a", "é".encode(), b"ab.", b"\x01", b"a@", "я".encode()]) * n)[:n] + rng.choice([b"", b"@a.com", "@почта.рф".encode()])
        if r < 0.89:
            return gen.rand_bytes(rng, rng.randrange(1, 60)).replace(b"\n", b"\r")
        if r < 0.93:
            return rng.choice(valid).replace(b"@", b"\r@", 1)
        if r < 0.96:
            return rng.choice([b"\xff@b.com", b"a\xc3@b.com", b"a@\xff.com", b"\xc0\x80", b"a\xed\xa0\x80@b.c", b"\xf4\x90\x80\x80@a.b"])
        return rng.choice(valid)[:rng.randrange(1, 10)] + b"\x00" + b"junk@x.com"

    files = []
    nfiles = 1500 if tier == "quick" else 20000
    for a in (b"user@example.com", b'"x@y #z"@example.com', "иван@почта.рф".encode(), b"a@[1.2.3.4]"):
        for suf in (b" #x", b"#x", b" # remark", b"\t#x", b" ;x", b" //x", b" (c)", b" -- x", b"  #", b" #", b"# ", b" %x", b" !x"):
            shapes.append(a + suf)
            shapes.append(a[:3] + suf + a[3:])
    edge = "".join(chr(c) for c in (0xa0, 0xff, 0x100, 0x7ff, 0x800, 0x801, 0xfff, 0x1000, 0xd7ff, 0xe000, 0xfffd, 0x10000, 0x10001, 0x10ffff))
    notable = [0xa0, 0xad, 0x34f, 0x61c, 0x180e, 0x200b, 0x200c, 0x200d, 0x200e, 0x200f, 0x2028, 0x2029, 0x202a, 0x202e, 0x2060, 0x2066, 0x2069,
               0x3000, 0x3002, 0xfe00, 0xfe0f, 0xfeff, 0xff0e, 0xfff9, 0xfffd, 0xe000, 0x1f600, 0xe0001, 0xe007f, 0x10fffd]
    fixed = [b"".join(b"a" + chr(c).encode("utf-8") + b"b@x.com\n" for c in notable), "".join(chr(c) for c in notable).encode("utf-8") + b"\n",
             b"\n".join(a for a in shapes) + b"\n",
             (edge + "@a.com\n").encode(), ("x" + edge[::-1] + "y@b.org").encode(), ("q@" + edge[:6] + ".com\r\n").encode(),
             "".join(c + "a" for c in edge).encode() + b"\n" + edge.encode() * 40 + b"\n", b"", b"\n", b"\n\n", b"a@b.com\n\nx@y.com\n", b"a@b.com\n \n", b" \n", b"\t", b"#only comment", b"#c\n#d\n", b"a@b.com", b"a@b.com\r\n",
             b"\r\n", b"a@b.com\r", b"\r", b" a@b.com \n", b"a" * 3000 + b"\n", b"\x01" * 700 + b"@b.com\n", b"a\xff@b.com\n",
             b"\n" * 50, ("é" * 3000).encode() + b"@a.com\n", b"x@y.zz\n" * 200]
    for f in fixed:
        files.append(f)
    # a truncated UTF-8 lead at the very end of the (first) line, for line lengths around the sizes getline's buffer takes
    tails = [b"\xc3", b"\xe2", b"\xe2\x82", b"\xf0", b"\xf0\x9f", b"\xf0\x9f\x98"]
    lens = list(range(112, 124)) + list(range(234, 246)) + [478, 479, 480, 958, 959, 960, 1918, 1919, 1920, 4094, 4095, 4096]
    if tier != "quick":
        lens = list(range(100, 300)) + lens
    k = 0
    for L in lens:
        for t in (tails if tier != "quick" else [tails[k % len(tails)], tails[(k + 3) % len(tails)]]):
            k += 1
            body = b"a" * (L - len(t) - 6) + b"@b.com"[:0] + b"a@b.c" + b"x" + t
            body = (b"a" * max(0, L - len(body))) + body
            files.append(body + b"\n")
            files.append(body)
            files.append(b"q" * (L - len(t)) + t + b"\nnext@line.com\n")
    files.append(b"a" * (3 * 1024 * 1024) + b"@b.com\nnext@line.com\n")                 # lines beyond any fixed or stack buffer
    files.append(b"x@y.zz\n" + b"\x01" * (2 * 1024 * 1024 + 17) + b"\n" + ("é" * (5 * 1024 * 1024)).encode() + b"@a.com")
    files.append(b"".join(rng.choice(valid) + b"\n" for _ in range(5000)))            # many lines in one file
    nshort = 20000 if tier == "quick" else 100000                                       # per-line cost must not grow with the line number
    files.append(b"".join((b"u%d@a.bc\n" % (i % 977)) if i % 5 else b"bad\n" for i in range(nshort)))
    for size in (4096, 8192, 16384, 65536):                                              # file size an exact multiple of the page size,
        tail_line = b"last.line@example.org"                                            # valid last line without terminator
        body = b""
        while len(body) + len(tail_line) + 60 < size:
            body += b"u%d@mail.example.com\n" % (len(body) % 9973)
        pad = size - len(body) - len(tail_line) - 1
        body += b"p" * max(0, pad - 6) + b"@a.com"[:6 if pad >= 6 else 0] + b"\n" + tail_line
        if len(body) == size:
            files.append(body)
            files.append(body[:-len(tail_line)] + b"\xd0\xb8\xd0\xb2@\xd1\x80\xd1\x84.com"[:len(tail_line)])
    files.append(b"\xef\xbb\xbfuser@example.com\nsecond@example.org\n")              # byte-order mark in front of the first line
    files.append(b"\r")
    files.append(b"a@b.com\r\r\n\rx@y.org\n")
    files.append(b"".join((rng.choice(short) if i % 3 else rng.choice(valid)) + (b"\r\n" if i % 2 else b"\n") for i in range(3000)))
    while len(files) < nfiles:
        n = rng.choice([1, 2, 3, 5, 10, 40, 200])
        term = rng.choice([b"\n", b"\n", b"\r\n"])
        body = b"".join(line() + (term if rng.random() < 0.9 else rng.choice([b"\n", b"\r\n"])) for _ in range(n))
        if rng.random() < 0.3:
            body = body.rstrip(b"\r\n") if rng.random() < 0.5 else body[:-1]
        files.append(body)
    return files


def parse_stdout(out):
    """-> list of [verdict, echo, message or None]"""
    res = []
    for l in out.split(b"\n"):
        if l.startswith(b"PASS: ") or l.startswith(b"FAIL: "):
            res.append([l[:4].decode(), l[6:], None])
        elif l.startswith(b"      ") and res and res[-1][0] == "FAIL" and res[-1][2] is None:
            res[-1][2] = l[6:]
        elif l == b"":
            continue
        else:
            res.append(["JUNK", l, None])
    return res


def w_files(tool, libdir, exe, files, workdir, wid):
    part = {"counters": collections.Counter(), "viol": [], "samples": [], "distinct": 0, "sets": {}}
    mdl = _model.Model()
    cnt = part["counters"]
    d = os.path.join(workdir, "files-%d" % wid)
    os.makedirs(d, exist_ok=True)
    env_c = build.san_env({"LD_LIBRARY_PATH": libdir, "ASAN_OPTIONS": "abort_on_error=1:detect_leaks=1:halt_on_error=1"})
    env_u = dict(env_c, LC_ALL="C.UTF-8")          # the tool adopts the environment's locale: every other invocation under C.UTF-8
    env = env_c
    i = 0
    group = 0
    while i < len(files):
        k = 1 + (group % 3) if group % 40 else (24 if group % 80 else 90)   # now and then 24 / 90 files on one command line
        chunk = files[i:i + k]
        i += k
        group += 1
        env = env_u if group % 2 else env_c
        paths = []
        kinds = []
        fifo_jobs = []
        stdin_data = None
        odd = (group % 5 == 2 and k < 24)
        for j, data in enumerate(chunk):
            p = os.path.join(d, "f%d_%d.txt" % (group, j))
            if odd and j == 0 and len(data) < 60000:
                # the same bytes through a FIFO whose writer turns up late, or through /dev/stdin (an input file need not be a regular file)
                if group % 10 == 2:
                    os.mkfifo(p)
                    fifo_jobs.append((p, data))
                else:
                    p = "/dev/stdin"
                    stdin_data = data
            else:
                with open(p, "wb") as f:
                    f.write(data)
            paths.append(p)
            kinds.append("file")
        if odd:
            # arguments that are not readable files, among good ones: a directory (opens, cannot be read), a missing path; the
            # verdicts of the other files must be unaffected and the tool must come to an end
            dp = os.path.join(d, "dir%d" % group)
            os.makedirs(dp, exist_ok=True)
            pos = group % (len(paths) + 1)
            paths.insert(pos, dp); kinds.insert(pos, "dir"); chunk = chunk[:pos] + [b""] + chunk[pos:]
            mp = os.path.join(d, "missing%d" % group)
            pos = (group // 3) % (len(paths) + 1)
            paths.insert(pos, mp); kinds.insert(pos, "missing"); chunk = chunk[:pos] + [b""] + chunk[pos:]
            # the same file named twice: both occurrences are processed
            reg = [(pp, dd) for pp, kd, dd in zip(paths, kinds, chunk) if kd == "file" and pp != "/dev/stdin" and not pp.endswith(tuple(f for f, _ in fifo_jobs) or ("\x00",))]
            if reg and len(reg[0][1]) < 200000:
                paths.append(reg[0][0]); kinds.append("file"); chunk = chunk + [reg[0][1]]
            cnt["odd-argument-invocations"] += 1
        writers = []
        for fp, data in fifo_jobs:
            def _w(fp=fp, data=data):
                time.sleep(0.3)
                try:
                    with open(fp, "wb") as f:
                        f.write(data)
                except OSError:
                    pass
            th = threading.Thread(target=_w, daemon=True)
            th.start()
            writers.append(th)
        # many files: with a low descriptor limit, so that a tool which does not close its files runs out
        pre = (lambda: resource.setrlimit(resource.RLIMIT_NOFILE, (48, 48))) if k >= 24 else None
        sin = dict(input=stdin_data) if stdin_data is not None else dict(stdin=subprocess.DEVNULL)
        try:
            if odd:
                pr = subprocess.run([tool] + paths, stdout=subprocess.PIPE, stderr=subprocess.PIPE, env=env, timeout=120, **sin)
            elif group % 4 == 1:
                # stdout redirected to a regular file (fully buffered stdio) instead of a pipe
                op = os.path.join(d, "out%d.txt" % group)
                with open(op, "wb") as fo:
                    pr = subprocess.run([tool] + paths, stdout=fo, stderr=subprocess.PIPE, env=env, timeout=300, preexec_fn=pre)
                pr.stdout = open(op, "rb").read()
                os.unlink(op)
            else:
                pr = subprocess.run([tool] + paths, stdout=subprocess.PIPE, stderr=subprocess.PIPE, env=env, timeout=300, preexec_fn=pre)
        except subprocess.TimeoutExpired:
            part["viol"].append(("hang" + ("/with-directory-and-missing-path-arguments" if odd else ""),
                                 {"files": [core.b2s(x)[:200] for x in chunk], "arguments": kinds}, {"timeout_s": 120 if odd else 300}))
            for fp, _ in fifo_jobs:            # release a writer that is still blocked in open()
                try:
                    fd = os.open(fp, os.O_RDONLY | os.O_NONBLOCK); os.close(fd)
                except OSError:
                    pass
            continue
        for fp, _ in fifo_jobs:
            try:
                fd = os.open(fp, os.O_RDONLY | os.O_NONBLOCK); os.close(fd)
            except OSError:
                pass
        cnt["invocations"] += 1
        cnt["files"] += len(chunk)
        err = pr.stderr.decode("utf-8", "replace")
        # expected, in reverse argv order
        exp = []
        per_file = []
        for data, kd in zip(reversed(chunk), reversed(kinds)):
            if kd == "missing":
                continue                          # "failed to open": no verdicts, no tally
            ml = model_lines(data) if kd == "file" else []
            per_file.append(ml)
            exp += ml
        wit = {"files_hex": [x.hex()[:600] for x in chunk], "files": [core.b2s(x)[:200] for x in chunk]}
        if odd:
            wit["arguments"] = ["%s%s" % (kd, ":fifo" if pp in [f for f, _ in fifo_jobs] else ":stdin" if pp == "/dev/stdin" else "")
                                for kd, pp in zip(kinds, paths)]
        if pr.returncode != 0 or "Sanitizer" in err or "runtime error" in err or "Assertion" in err:
            sig = driver.crash_signature(err, pr.returncode)
            # minimise: which single file reproduces?
            part["viol"].append(("abnormal-exit/%s" % sig, wit, {"exit": pr.returncode, "stderr": err[-1500:]}))
            continue
        got = parse_stdout(pr.stdout)
        cnt["lines.expected"] += len(exp)
        if len(got) != len(exp) or any(g[0] == "JUNK" for g in got):
            part["viol"].append(("verdict-count/%s" % ("junk-output" if any(g[0] == "JUNK" for g in got) else "expected-%s-got-%s" % (
                "more" if len(exp) > len(got) else "fewer", "fewer" if len(exp) > len(got) else "more")), wit,
                {"expected": len(exp), "got": len(got), "stdout": core.b2s(pr.stdout[:400])}))
            continue
        # library verdicts under default settings
        addrs = [a for a, _ in exp]
        recs = driver.run_lines(exe, [driver.A_line(a, sections=1, modes=8, tlds=2) for a in addrs]) if addrs else []
        np_, nf_ = 0, 0
        for (a, raw), g, r in zip(exp, got, recs):
            h = r["hl"]["7"]
            want = "PASS" if h[0] else "FAIL"
            cnt["verdicts.compared"] += 1
            cnt["verdict." + want] += 1
            lw = {"line": core.b2s(raw)[:200], "line_hex": raw.hex()[:600], "address": core.b2s(a)[:200]}
            if g[0] != want:
                part["viol"].append(("verdict-differs-from-library/%s" % want, lw, {"tool": g[0], "library": h[:3]}))
                continue
            if want == "FAIL":
                msg = (h[2] or "").encode()
                if g[2] is None or g[2] != msg:
                    part["viol"].append(("fail-message-differs", lw, {"tool": core.b2s(g[2]) if g[2] is not None else None, "library": h[2]}))
            if is_clean_utf8(a):
                cnt["echo.compared"] += 1
                if g[1] != a:
                    part["viol"].append(("echo-changed", lw, {"echo": core.b2s(g[1])[:300]}))
        # stderr tally per file
        tallies = re.findall(r": pass = (\d+) fail = (\d+)", err)
        exp_t = []
        k0 = 0
        for ml in per_file:
            sub = recs[k0:k0 + len(ml)]
            k0 += len(ml)
            p_ = sum(1 for r in sub if r["hl"]["7"][0])
            exp_t.append((str(p_), str(len(ml) - p_)))
        if tallies != exp_t:
            part["viol"].append(("stderr-tally", wit, {"stderr": err[-400:], "expected": exp_t}))
        for p, kd in zip(sorted(set(paths), key=paths.index), [kinds[paths.index(q)] for q in sorted(set(paths), key=paths.index)]):
            try:
                if kd == "dir":
                    os.rmdir(p)
                elif kd == "file" and p != "/dev/stdin":
                    os.unlink(p)
            except OSError:
                pass
    part["distinct"] = len(files)
    if files:
        part["samples"].append({"source": "files", "file": core.b2s(files[len(files) // 2][:160])})
    return part


def main(tier, seed):
    rep = core.Report(PROP, tier, seed)
    cx = _ctx.Ctx(PROP)
    mdl = _model.Model()
    tool, libdir = build.build_cli(cx.dir)
    exe = cx.exe("asan")
    files = make_files(tier, seed, mdl)
    n = 16
    jobs = [(w_files, (tool, libdir, exe, files[i::n], cx.dir, i)) for i in range(n)]
    for part in core.pmap(_run, jobs):
        rep.merge(part)
    c = rep.counters
    rep.require(not (not c["invocations"]), "tool never ran")
    rep.assumptions += ["the tool is linked as bin/Makefile links it (its own utf8_decode.c interposes the library's decoder)",
                        "echo is compared only for well-formed, control-free UTF-8 lines (the statement's scope)"]
    return rep.finish(c["lines.expected"] + c["files"], rep.distinct_count,
                      "%d files (21 fixed shapes + random assemblies of empty / blank / comment / valid / invalid / 0.3-8 KiB / binary / "
                      "embedded-CR / invalid-UTF-8 / NUL lines x LF/CRLF x final newline), 1-3 files per invocation; distinct = files" % len(files),
                      {"builds": cx.builds_info()})


def _run(fn, args):
    return fn(*args)
