"""C08 - allow_tld / tld_check policy: acceptance iff the TLD class bit is allowed (finite space, enumerated completely).

(a) caller-installed callbacks in the public eav_t return every result code x all 2^11 masks x 4 modes x tld on/off;
(b) real addresses of every reachable class, unlisted TLD, non-FQDN, literals x all masks x modes x tld on/off;
(c) eav_init on poisoned memory selects mode 6531, TLD checking on and the documented default mask."""
import collections, random
from .. import core, ctx as _ctx, driver, model as _model, oracle_domain as OD
from ..driver import MODES

PROP = "C08"


def decode(line):
    """packed 'ret errhi errlo' triples -> list of (ret, errcode)"""
    out = []
    for i in range(0, len(line), 3):
        out.append((ord(line[i]) - 48, (ord(line[i + 1]) - 48) * 16 + (ord(line[i + 2]) - 65)))
    return out


def run_policy(exe, line):
    raw = driver.run_lines(exe, [line], raw=True)
    rows = [l for l in raw.split("\n") if l and l != "END"]
    return rows


def w_callback(exe, rc):
    part = {"counters": collections.Counter(), "viol": [], "samples": [], "distinct": 0, "sets": {}}
    mdl = _model.Model()
    try:
        rows = run_policy(exe, "C %d" % rc)
    except driver.DriverCrash as c:
        part["viol"].append(("callback/crash/%s" % c.signature(), {"rc": rc}, {"stderr": c.stderr[-1200:]}))
        return part
    if len(rows) != 8:
        raise core.Inconclusive("policy driver returned %d rows" % len(rows))
    cname = mdl.tldtype_name.get(rc) if rc > 0 else None
    for i, row in enumerate(rows):
        m, t = divmod(i, 2)
        obs = decode(row)
        if len(obs) != 2048:
            raise core.Inconclusive("short row")
        for mask, (ret, err) in enumerate(obs):
            if rc == 0:
                exp = (1, 0)
            elif rc < 0:
                exp = (0, -rc)
            else:
                ok = bool(mask & mdl.class_bit(cname))
                exp = (1, 0) if ok else (0, mdl.class_errcode(cname))
            part["counters"]["callback.calls"] += 1
            if (ret, err) != exp:
                # which bit wrongly governs?
                part["viol"].append(("callback/rc=%s/%s" % (cname or rc, "accepts" if ret else "rejects"),
                                     {"rc": rc, "mode": MODES[m], "tld_check": t, "allow_tld": "0x%x" % mask},
                                     {"observed": [ret, err], "expected": list(exp)}))
    part["distinct"] = 8 * 2048 if rc > 0 else 0      # non-trivial: the class bit actually decides
    part["samples"].append({"source": "callback", "rc": rc, "class": cname, "masks": 2048, "modes": 4, "tld_check": [0, 1]})
    return part


def w_real(exe, addr, kind, cls):
    part = {"counters": collections.Counter(), "viol": [], "samples": [], "distinct": 0, "sets": {}}
    mdl = _model.Model()
    try:
        rows = run_policy(exe, "R " + driver.hx(addr))
    except driver.DriverCrash as c:
        part["viol"].append(("real/crash/%s" % c.signature(), {"address": core.b2s(addr)}, {"stderr": c.stderr[-1200:]}))
        return part
    if len(rows) != 8:
        raise core.Inconclusive("policy driver returned %d rows" % len(rows))
    for i, row in enumerate(rows):
        m, t = divmod(i, 2)
        obs = decode(row)
        for mask, (ret, err) in enumerate(obs):
            if kind == "class6531" and m != 3:
                continue
            if not t or kind == "literal":
                exp = (1, 0)                     # syntax-only decision, constant in the mask
            elif kind == "class":
                ok = bool(mask & mdl.class_bit(cls))
                exp = (1, 0) if ok else (0, mdl.class_errcode(cls))
            elif kind == "class6531":
                if m != 3:
                    continue           # a non-ASCII spelling: only mode 6531 can classify it
                ok = bool(mask & mdl.class_bit(cls))
                exp = (1, 0) if ok else (0, mdl.class_errcode(cls))
            elif kind == "unlisted":
                exp = (0, mdl.E("TLD_INVALID"))
            elif kind == "nonfqdn":
                exp = (0, mdl.E("DOMAIN_NOT_FQDN"))
            elif kind == "syntax-invalid":
                exp = None
            part["counters"]["real.calls"] += 1
            if kind == "syntax-invalid":
                if ret != 0 or (ret, err) != obs[0]:
                    part["viol"].append(("real/syntax-invalid-depends-on-mask", {"address": core.b2s(addr), "mode": MODES[m],
                                         "tld_check": t, "allow_tld": "0x%x" % mask}, {"observed": [ret, err], "mask0": list(obs[0])}))
            elif (ret, err) != exp:
                part["viol"].append(("real/%s%s/%s" % (kind, "-" + cls if cls else "", "accepts" if ret else "rejects")
                                     + ("" if t else "/tld-off"),
                                     {"address": core.b2s(addr), "mode": MODES[m], "tld_check": t, "allow_tld": "0x%x" % mask},
                                     {"observed": [ret, err], "expected": list(exp)}))
    part["distinct"] = 4 * 2048 if kind == "class" else 0   # non-trivial: tld on and a classified address
    part["samples"].append({"source": "real", "address": core.b2s(addr), "kind": kind, "class": cls})
    return part


def w_highbits(exe, items):
    """allow_tld values with bits outside the eleven defined ones (0x800 ... sign bit): only the class bit of the domain decides."""
    part = {"counters": collections.Counter(), "viol": [], "samples": [], "distinct": 0, "sets": {}}
    mdl = _model.Model()
    lines, meta = [], []
    for addr, cls in items:
        bit = mdl.class_bit(cls)
        for hb in (0x800, 0x1000, 0x10000, 0x40000000, 0x80000000, 0xfffff800):
            for base in (0, bit, mdl.all_bits & ~bit, mdl.all_bits):
                lines.append(driver.A_line(addr, sections=1, modes=15, tlds=2, allow=(base | hb) & 0xffffffff))
                meta.append((addr, cls, base | hb, bool(base & bit)))
    recs, crashes = driver.run_lines_resilient(exe, lines)
    for idx, sig, err in crashes:
        part["viol"].append(("highbits/crash/%s" % sig, {"address": core.b2s(meta[idx][0]) if idx >= 0 else ""}, {"stderr": err[-1200:]}))
    for (addr, cls, mask, ok), r in zip(meta, recs):
        if r is None:
            continue
        for m in range(4):
            h = r["hl"].get(str(m * 2 + 1))
            if h is None or h[0] < 0:
                continue
            part["counters"]["highbits.calls"] += 1
            exp = (1, 0) if ok else (0, mdl.class_errcode(cls))
            if (h[0], h[1]) != exp:
                part["viol"].append(("highbits/%s/%s" % (cls, "accepts" if h[0] else "rejects"),
                                     {"address": core.b2s(addr), "mode": MODES[m], "allow_tld": "0x%x" % mask}, {"observed": h[:2], "expected": list(exp)}))
    part["distinct"] = len(lines)
    return part


def w_init(exe):
    part = {"counters": collections.Counter(), "viol": [], "samples": [], "distinct": 0, "sets": {}}
    mdl = _model.Model()
    for p in (0x00, 0xff, 0xa5, 0x5a, 0x01, 0x80):
        rows = run_policy(exe, "Z %d" % p)
        rfc, tld, allow, err, resnull = [int(x) for x in rows[0].split()]
        part["counters"]["init.calls"] += 1
        if rfc != mdl.rfc["EAV_RFC_6531"] or tld != 1 or allow != mdl.default_allow:
            part["viol"].append(("init/defaults", {"poison": "0x%02x" % p},
                                 {"rfc": rfc, "tld_check": tld, "allow_tld": "0x%x" % allow,
                                  "expected": [mdl.rfc["EAV_RFC_6531"], 1, "0x%x" % mdl.default_allow]}))
    part["distinct"] = 6
    return part


def main(tier, seed):
    rep = core.Report(PROP, tier, seed)
    cx = _ctx.Ctx(PROP)
    exe = cx.exe("asan-policy", driver=("drv/policy.c",))
    mdl = _model.Model()
    rng = random.Random(seed)
    jobs = []
    codes = [0] + [mdl.class_number(c) for c in _model.CLASSES] + [-v for v in sorted(mdl.eeav.values()) if v > 0]
    for rc in codes:
        jobs.append((w_callback, (exe, rc)))
    bycls = collections.defaultdict(list)
    for n, _, cls in mdl.rows:
        bycls[cls].append(n)
    real = []
    for cls, names in sorted(bycls.items()):
        pick = names if tier != "quick" else sorted(set(rng.sample(names, min(len(names), 3)) + sorted(names, key=len)[:1] + sorted(names, key=len)[-2:]
                                                         + [n for n in names if n.startswith(b"xn--")][:2]))
        for n in pick:
            real.append((b"user@mail." + n, "class", cls))
    for d in (b"example.com", b"a.test", b"localhost", b"x.y.onion", b"EXAMPLE.ORG", b"abcdefg.invalid"):
        real.append((b"u@" + d, "class", "SPECIAL"))
    # meaningful second-level labels: the governing bit is the class of the *last* label (reserved names aside)
    for w in (b"home", b"ipv4only", b"resolver", b"service", b"in-addr", b"ip6", b"local", b"corp", b"mail", b"www", b"gov", b"nic"):
        for t in (b"arpa", b"com", b"org", b"int"):
            d = w + b"." + t
            cls = mdl.tld_class_of(d)
            if cls not in ("INVALID", "NOT_FQDN"):
                real.append((b"u@" + d, "class", cls))
    # reserved words at every label position of 3- and 4-label names: only the last label (or the last two for example.com/net/org)
    # may decide; the governing bit of example.mail.com is GENERIC
    from .. import words
    for w in words.RESERVED_WORDS:
        for d in (w + b".mail.com", w + b".a.b.org", b"mail." + w + b".x.net", w + b"." + w + b".info", b"a." + w + b".co.uk", w + b".example.museum",
                  w + b".com.de", b"www.my-" + w + b".com", w + b"-a.b.org"):
            cls = mdl.tld_class_of(d)
            if cls not in ("INVALID", "NOT_FQDN"):
                real.append((b"u@" + d, "class", cls))
    # IDNA dot variants and fullwidth spellings in front of TLDs of every class (mode 6531 classifies the converted name)
    for cls, names in sorted(bycls.items()):
        n = sorted(names, key=len)[0]
        if n.startswith(b"xn--") or not n.isalpha():
            continue
        for sep in ("\u3002", "\uff0e", "\uff61"):
            real.append((b"u@mail" + sep.encode("utf-8") + n, "class6531", cls))
        fw = "".join(chr(0xff00 + c - 0x20) for c in n)
        real.append((b"u@mail." + fw.encode("utf-8"), "class6531", cls))
    for d in (b"a.zzzzzz", b"a.comm", b"mail.co1"):
        real.append((b"u@" + d, "unlisted", None))
    for d in (b"pppppp", b"com", b"mailhost"):
        real.append((b"u@" + d, "nonfqdn", None))
    # a single label is no FQDN whatever it is: a listed TLD of every class, in both cases, an A-label TLD
    for cls, names in sorted(bycls.items()):
        n0 = sorted(names, key=len)[0]
        real.append((b"u@" + n0, "nonfqdn", None))
        real.append((b"first.last@" + n0.upper(), "nonfqdn", None))
    for n0 in [n for n, _, _ in mdl.rows if n.startswith(b"xn--")][:2]:
        real.append((b"u@" + n0, "nonfqdn", None))
    for d in (b"[1.2.3.4]", b"[IPv6:2001:db8::1]", b"[IPv6:::ffff:1.2.3.4]", b"[127.0.0.1]", b"[127.255.255.254]", b"[IPv6:::1]",
              b"[IPv6:::ffff:127.0.0.1]", b"[10.0.0.1]", b"[192.168.1.1]", b"[169.254.1.1]", b"[224.0.0.1]", b"[255.255.255.255]",
              b"[IPv6:fe80::1]", b"[IPv6:ff02::1]", b"[IPv6:fc00::1]", b"[IPv6:2001:db8:0:0:0:0:0:1]", b"[192.0.2.1]", b"[100.64.0.1]"):
        real.append((b"u@" + d, "literal", None))
    for d in ("ｅｘａｍｐｌｅ.com", "foo.ｔｅｓｔ", "ｌｏｃａｌｈｏｓｔ", "example。org", "EXAMPLE．NET", "a.in\u00advalid"):
        real.append((b"u@" + d.encode("utf-8"), "class6531", "SPECIAL"))
    for a in (b"u@-a.com", b"a..b@c.com", b"u@a_b.com", b"@a.com", b"u@[1.2.3]"):
        real.append((a, "syntax-invalid", None))
    for a, kind, cls in real:
        jobs.append((w_real, (exe, a, kind, cls)))
    jobs.append((w_init, (exe,)))
    hb_items = [(a, cls) for a, kind, cls in real if kind == "class"][:: (3 if tier == "quick" else 1)]
    jobs.append((w_highbits, (cx.exe("asan"), hb_items)))
    for part in core.pmap(_run, jobs):
        rep.merge(part)
    c = rep.counters
    ev = c["callback.calls"] + c["real.calls"] + c["init.calls"]
    rep.assumptions += ["callbacks are installed through the public fields ascii_cb/utf8_cb after eav_setup",
                        "class <-> bit <-> error code are paired by *name* from the public headers"]
    return rep.finish(ev, rep.distinct_count,
                      "callback result codes {0, 9 classes, every negative code} x 2^11 masks x 4 modes x tld off/on (complete); %d "
                      "real addresses (every class present in the table%s, reserved, unlisted, non-FQDN, literals, syntax-invalid) x "
                      "2^11 masks x 4 modes x tld off/on; eav_init on 6 poison patterns; distinct_nontrivial = (code|address, mode, tld, mask) "
                      "tuples in which the class bit decides (positive result code / classified address with tld on)" % (len(real), "" if tier == "quick" else ", all rows"),
                      {"exhaustive": True, "result_codes": codes, "builds": cx.builds_info()})


def _run(fn, args):
    return fn(*args)
