"""C13 - eav_t reuse: the outcome depends only on the current settings and the address, not on history.

drv/hist.c runs call histories on one eav_t in fresh heap memory; after every eav_is_email a fresh object with the model's
settings validates the same address (fresh-object differential); an allocation ledger (sanitizer malloc/free hooks) checks
that the previous result is released by the next call and that eav_free releases everything; ASan/LSan watch for double
frees and leaks."""
import itertools, random
from .. import core, ctx as _ctx, histmon as HM, model as _model, addrgen as AG, gen

PROP = "C13"


def w_hist(exe, pool, programs, extra, src, cold=None):
    part = HM.new_part()
    mdl = _model.Model()
    ref = HM.failed_setup_reference(exe)
    traces, crashes = HM.run_histories(exe, pool, programs)
    for idx, sig, err in crashes:
        p = programs[idx] if 0 <= idx < len(programs) else []
        part["viol"].append(("crash/%s" % sig, {"history": " ".join(p)}, {"stderr": err[-1500:], "source": src}))
    n = 0
    for prog, tr in zip(programs, traces):
        if tr is None:
            continue
        HM.check_trace(prog, tr, mdl, part, extra=extra, src=src, setup_ref=ref, cold=cold)
        n += 1
    part["distinct"] = len(programs)
    part["counters"][src + ".histories"] += n
    if programs:
        part["samples"].append({"source": src, "history": " ".join(programs[len(programs) // 2][:40]),
                                "pool": [core.b2s(a)[:40] for a in pool[:7]]})
    return part


def w_memcheck_hist(exe, pool, programs):
    """The same histories under valgrind memcheck (uninstrumented -O0 build): every value the driver prints - return values,
    codes, every result field of the reused object - must be *defined*; a field that is only accidentally equal between
    the reused and the fresh object (stale heap contents) shows up here."""
    import os, re, subprocess
    from .. import build, driver
    part = HM.new_part()
    lines = ["P " + driver.hx(a) for a in pool] + ["H " + " ".join(p) for p in programs]
    data = ("\n".join(lines) + "\nQ\n").encode()
    cmd = ["valgrind", "--tool=memcheck", "-q", "--error-exitcode=68", "--track-origins=yes", "--leak-check=full",
           "--errors-for-leak-kinds=definite,indirect", exe]
    p = subprocess.run(cmd, input=data, stdout=subprocess.PIPE, stderr=subprocess.PIPE, env=dict(os.environ, LC_ALL="C", VERIF_POISON="none"), timeout=3000)
    err = p.stderr.decode("utf-8", "replace")
    part["counters"]["memcheck.histories"] += p.stdout.count(b'["end"')
    if p.returncode != 0:
        srcs = set(os.listdir(os.path.join(build.REPO, "src"))) | set(os.listdir(os.path.join(build.REPO, "partial", "idn2")))
        seen = 0
        for blk in [b for b in re.split(r"\n==\d+== \n", err) if "==" in b]:
            m = re.search(r"==\d+== ([A-Z][^\n]+)", blk)
            kind = re.sub(r"[^A-Za-z]+", "-", (m.group(1) if m else "error"))[:50].strip("-")
            frame = "?"
            for fm in re.finditer(r"(?:at|by) 0x[0-9A-F]+: (\S+) \((\S+?):(\d+)\)", blk):
                if fm.group(2) in srcs:
                    frame = "%s@%s" % (fm.group(1), fm.group(2))
                    break
            if frame == "?" and "hist.c" not in blk:
                continue
            seen += 1
            part["viol"].append(("memcheck/%s/%s" % (kind, frame), {"tool": "memcheck", "histories": len(programs)}, {"report": blk[:1800]}))
        if not seen:
            part["viol"].append(("memcheck/exit%d" % p.returncode, {"tool": "memcheck"}, {"stderr": err[-1500:]}))
    part["distinct"] = len(programs)
    part["samples"].append({"source": "memcheck", "history": " ".join(programs[0][:30])})
    return part


def exhaustive(mdl, pool, length):
    ops = HM.alphabet(mdl, len(pool))
    for n in range(2, length + 1):
        for seq in itertools.product(ops, repeat=n):
            if HM.useful(seq):
                yield list(seq)


def random_history(rng, ops_w, n):
    seq = ["r%d" % rng.randrange(0, 4), "s"]
    while len(seq) < n:
        seq.append(rng.choices(ops_w[0], ops_w[1])[0])
    return seq


def near_duplicate_pool():
    """[A0, B0, A1, B1, ...]: A and B have the same length and differ in one late byte only, with different outcomes."""
    out = []
    def dom(n_labels, ch, rep):
        return ".".join([ch * rep] * n_labels)
    bases = [b"user@example.com", b"first.last@mail.example.org", b"a" * 60 + b"@" + b"b" * 60 + b".com",
             b"a" * 64 + b"@" + (b"d" * 63 + b".") * 3 + b"d" * 57 + b".com"]
    for nl, ch, rep in ((2, "\u4e2d", 19), (4, "\u4e2d", 19), (5, "\u4e2d", 19), (6, "\u0436", 24), (5, "\uac00", 18)):
        bases.append(b"a" * 64 + b"@" + dom(nl, ch, rep).encode("utf-8") + b".com")
        bases.append(b"user@" + dom(nl, ch, rep).encode("utf-8") + b".org")
    bases.append(b"x@" + ("\u00e9" * 20 + ".").encode("utf-8") * 40 + b"com")          # > 1 KiB, not a valid name
    bases.append(b"x@" + (b"ab." * 1400) + b"com")                                       # > 4 KiB
    for a in bases:
        for b in (a[:-1] + b"-", a[:-1] + b"_", a[:-3] + b"zzq", a[:-3] + b"c m"):
            if b != a and len(b) == len(a):
                out += [a, b]
        # an early difference as well (same length, same tail)
        out += [a, b"." + a[1:]]
    # same length, different verdict, same digest under ten well-known 32-bit string hashes (tools/gen_collisions.py): a shortcut keyed
    # on length + digest of the address takes the second for the first
    import json, os
    try:
        col = json.load(open(os.path.join(core.VERIF, "vlib", "data", "collisions.json")))
    except OSError:
        col = {}
    for name in sorted(col):
        for a, b in col[name]:
            out += [a.encode(), b.encode()]
    # collisions that are equalities over the integers, hence under a polynomial hash h*k + c of *any* word size (a 64-bit djb2 never
    # wraps on short addresses, so the 32-bit pairs above do not collide there): (c1, c2) and (c1 + 1, c2 - k) at adjacent positions
    for k in (31, 33, 37):
        for bad in b"(,; <":
            c2 = bad + k
            if not (0x41 <= c2 <= 0x5a or 0x61 <= c2 <= 0x7a):
                continue
            for pre, suf in ((b"", b"@example.com"), (b"xy", b"z@mail.example.org"), (b"q.", b"@[10.1.2.3]")):
                out += [pre + b"a" + bytes([c2]) + suf, pre + b"b" + bytes([bad]) + suf]
        c2 = 0x2d + k                                       # a label ending in '-' against the same label with a letter there
        if 0x41 <= c2 <= 0x5a or 0x61 <= c2 <= 0x7a:
            for pre, suf in ((b"user@exampl", b".com"), (b"u@a.b", b".cd.org")):
                out += [pre + b"a" + bytes([c2]) + suf, pre + b"b-" + suf]
    return out


def main(tier, seed):
    rep = core.Report(PROP, tier, seed)
    cx = _ctx.Ctx(PROP)
    mdl = _model.Model()
    rng = random.Random(seed)
    variants = [("asan-hist", cx.exe("asan-hist", driver=("drv/hist.c",)), False),
                ("asan-hist-extra", cx.exe("asan-hist-extra", driver=("drv/hist.c",), defs=["EAV_EXTRA"]), True)]
    jobs = []
    L = 5 if tier == "quick" else 5
    progs = list(exhaustive(mdl, HM.POOL7, L))
    if tier != "quick":
        # length 6 with canonical pruning: fixed 'r? s' prefix, remaining four ops free
        ops = HM.alphabet(mdl, len(HM.POOL7))
        for r in ("r0", "r1", "r2", "r3"):
            for seq in itertools.product(ops, repeat=4):
                if any(o[0] == "e" for o in seq):
                    progs.append([r, "s"] + list(seq))
    masks = [mdl.default_allow, 0, mdl.all_bits, mdl.default_allow & ~mdl.class_bit("SPECIAL")]
    cold = HM.cold_reference(cx.exe("asan"), HM.POOL7, masks)
    for i in range(0, len(progs), 6000):
        jobs.append((w_hist, (variants[0][1], HM.POOL7, progs[i:i + 6000], False, "exhaustive", cold)))
    # the EAV_EXTRA build gets a strided sample of the exhaustive set
    sub = progs[seed % 7::7]
    for i in range(0, len(sub), 6000):
        jobs.append((w_hist, (variants[1][1], HM.POOL7, sub[i:i + 6000], True, "exhaustive-extra")))
    # random long histories over a large pool
    big = AG.address_corpus("quick", seed, mdl, cross=False)
    big = [a for a in big if len(a) < 400]
    rng.shuffle(big)
    big = big[:1000]
    nseq = 3000 if tier == "quick" else 40000
    for vi, (name, exe, extra) in enumerate(variants):
        for j in range(16 if tier == "quick" else 64):
            r = random.Random(seed * 31337 + j * 2 + vi)
            ops = HM.alphabet(mdl, 0)
            w = [ops + ["E"], [2, 2, 2, 3, 1, 1, 6, 2, 2, 2, 1, 2, 2, 3, 1] + [30]]
            ps = []
            for _ in range(max(1, nseq // (16 if tier == "quick" else 64) // len(variants))):
                p = random_history(r, w, r.choice([5, 20, 60, 200]))
                ps.append([("e%d" % r.randrange(len(big))) if o == "E" else o for o in p])
            jobs.append((w_hist, (exe, big, ps, extra, "random")))
    # near-duplicates validated back to back: same length, common prefix of 15 ... 4000 bytes, different outcome (a "same as last
    # time" shortcut that compares a prefix, a length or a digest of the address shows here; the fresh-object differential judges)
    dup = near_duplicate_pool()
    dprogs = []
    for i in range(0, len(dup), 2):
        for m in (3, 0, 1, 2):
            for t in ("t1", "t0"):
                dprogs.append(["r%d" % m, "s", t, "e%d" % i, "e%d" % (i + 1), "m", "e%d" % (i + 1), "e%d" % i, "m", "e%d" % i, "e%d" % i,
                               "e%d" % (i + 1)])
    for vi, (name, exe, extra) in enumerate(variants):
        jobs.append((w_hist, (exe, dup, dprogs, extra, "near-duplicates")))
    # the caller installs callbacks of its own in the public fields ('k'); every later successful set-up wires the confirmed mode again
    kprogs = []
    for m1 in range(4):
        for m2 in range(4):
            for i in range(len(HM.POOL7)):
                kprogs.append(["r%d" % m1, "s", "e0", "k", "r%d" % m2, "s", "e%d" % i, "m"])
                kprogs.append(["k", "r%d" % m2, "s", "e%d" % i, "r%d" % m1, "s", "k", "r%d" % m1, "s", "e%d" % i])
    for vi, (name, exe, extra) in enumerate(variants):
        jobs.append((w_hist, (exe, HM.POOL7, kprogs, extra, "caller-callbacks", cold if not extra else None)))
    # one object, 66 000 validations in a row (a call counter of 8 or 16 bits wraps, per-call growth adds up: the ledger is read after every
    # call), with a settings change and an errstr now and then
    n_long = 66000 if tier == "quick" else 140000
    for m in (3, 1):
        p = ["r%d" % m, "s", "r%d" % (m - 1)]          # and an rfc value that is never confirmed: it must not take effect, ever
        for i in range(n_long):
            p.append("e%d" % (i % len(HM.POOL7)))
            if i % 997 == 0:
                p += ["t%d" % ((i // 997) % 2), "m"]
        jobs.append((w_hist, (variants[0][1], HM.POOL7, [p], False, "long-run", cold)))
    # memcheck pass on an uninstrumented build (definedness of every observed field)
    plain = cx.exe("plain-O0-hist", driver=("drv/hist.c",), san="plain-O0")
    r = random.Random(seed * 4099)
    ops = HM.alphabet(mdl, len(HM.POOL7))
    mprogs = [["r%d" % r.randrange(4), "s"] + [r.choice(ops) for _ in range(r.choice([6, 15, 40]))] for _ in range(160 if tier == "quick" else 1600)]
    mprogs += progs[seed % 97::97][:200 if tier == "quick" else 2000]
    for i in range(0, len(mprogs), 60):
        jobs.append((w_memcheck_hist, (plain, HM.POOL7, mprogs[i:i + 60])))
    for part in core.pmap(_run, jobs):
        rep.merge(part)
    c = rep.counters
    rep.require(not (c["is_email"] == 0 or c["free+init"] == 0 or c["errstr.reread"] == 0), "an operation kind was never observed")
    rep.assumptions += ["eav_is_email is issued only once a mode is confirmed (documented contract)",
                        "eav_errstr read after a *failed* eav_setup is judged by C15, not here"]
    return rep.finish(c["is_email"] + c["setup"] + c["errstr.reread"] + c["free+init"], rep.distinct_count,
                      "all op sequences up to length %d over {rfc:=822|5321|5322|6531|99|-1, setup, tld_check:=0|1, allow_tld:=default|0|all|"
                      "~special, is_email(7 addresses), errstr, free+init} that validate after a setup (exhaustive%s); random histories "
                      "to length 200 over %d addresses; default and EAV_EXTRA builds; distinct = histories" % (
                          L, "; length 6 with a fixed 'rfc,setup' prefix" if tier != "quick" else "", len(big)),
                      {"exhaustive_length": L, "builds": cx.builds_info()})


def _run(fn, args):
    return fn(*args)
