"""C12 - modes differ only where the RFCs differ (metamorphic relations R1-R3 across the four modes)."""
import itertools
from .. import core, addrgen as AG, gen
from . import addr_common

PROP = "C12"
TOKENS = [b"a", b"1", b"#", b".", b"-", b"@", b"[", b"]", b" ", b"_", b"(", b":"]


def extra_jobs(tier, seed=1):
    def f(cx, exe, opts, extra, name):
        k = 4 if tier == "quick" else 5
        jobs = []
        strings = [s for s in gen.enum_strings(TOKENS, k) if s]
        # whole-address enumeration + the same strings as local part and as domain of a fixed other half
        allv = strings + [s + b"@a.bc" for s in strings if len(s) <= 3] + [b"a@" + s for s in strings if len(s) <= 4]
        for i in range(0, len(allv), 3000):
            jobs.append((AG.w_addr, (exe, allv[i:i + 3000], [PROP], opts, extra, 1 | 4, None, "enum")))
        # the domain corpora of C07 (every table row in several case forms, near misses) and C09 (reserved names and neighbours)
        # behind rotating local parts: the relations also hold where the TLD table and the reserved-name rules decide
        import random
        from .. import tldgen as TG, model as _model
        rng = random.Random(seed)
        mdl = _model.Model()
        doms = TG.tld_domains(tier, rng, mdl)[:: (2 if tier == "quick" else 1)] + TG.special_domains(tier, rng)[:: (6 if tier == "quick" else 1)]
        lps = [b"user", b"a.b", b"x", b"first.last+tag", b"a" * 64]
        dv = [lps[i % len(lps)] + b"@" + d for i, d in enumerate(doms)]
        for i in range(0, len(dv), 3000):
            jobs.append((AG.w_addr, (exe, dv[i:i + 3000], [PROP], opts, extra, 1 | 4, None, "tld-corpora")))
        return jobs
    return f


def main(tier, seed):
    rep, cx, n = addr_common.run(
        PROP, tier, seed, sections=1 | 4, variants=[("asan", {}, False)], rule="",
        assumptions=["R1 exemption: mode 6531 reports an IDN-library error and the ASCII modes report no local-part error"],
        extra_jobs=extra_jobs(tier, seed))
    c = rep.counters
    ev = c["R1.checked"] + c["R2.checked"] + c["R3.checked"]
    rep.require(not (not (c["R1.checked"] and c["R2.checked"] and c["R3.checked"])), "a relation was never exercised")
    return rep.finish(ev, rep.distinct_count,
                      "all strings up to length %d over a 12-token alphabet as whole address / local part / domain, plus the "
                      "C01 address corpus and the C07 / C09 domain corpora behind rotating local parts; relations R1 (pure ASCII, no quote/backslash: same decision and code in 4 modes), R2 "
                      "(5321 accepts => 822 accepts), R3 (same domain verdict/class/flags in the ASCII modes); tld off and on; "
                      "distinct = distinct addresses" % (4 if tier == "quick" else 5),
                      {"builds": cx.builds_info()})
