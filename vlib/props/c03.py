"""C03 - RFC 6531 local part: strict UTF-8 plus the RFC 5321 grammar, nothing else.

is_6531_local of the default build (ASan+UBSan) against R-LOCAL(6531) on: every 1-3 byte sequence (quick: all 1-2 byte,
strided 3-byte + boundary neighbourhoods) and a structured 4-byte cover, each embedded in 12 structural positions;
bounded-exhaustive mixes of ASCII class representatives and well-/ill-formed multi-byte tokens; conformance and per-byte
suites of the reference automaton; corpus and random walks; plus the relation 'pure ASCII => same decision as 5321'."""
import itertools, random
from .. import core, ctx as _ctx, localgen as LG, oracle_local as OL, gen, driver

PROP = "C03"
MODE = "6531"
TEMPLATES = [(b"a", b"b"), (b"a.", b".b"), (b"", b".a"), (b"a.", b""), (b'"', b'"'), (b'"\\', b'"'),
             (b"", b'"a"'), (b"a.", b'"b"'), (b'"a"', b""), (b"", b""), (b'"a".', b""), (b"", b'."a"')]
TOKENS = [b"a", b"#", b'"', b"\\", b".", b" ", b"\r", b"\x01", b"(",
          "é".encode(), "€".encode(), "😀".encode(),
          b"\xc0\x80", b"\xed\xa0\x80", b"\x80", b"\xc3", b"\xe2\x82", b"\xf4\x90\x80\x80"]


def _symkey(x):
    s = OL.utf8_symbols(x)
    return None if s is None else "".join(s)


def w_useq(exe, nb, lo, hi, step, opts):
    part = LG.new_part()
    opts = frozenset(opts)
    xs = []
    for v in range(lo, hi, step):
        x = v.to_bytes(nb, "big")
        if 0 in x:
            continue
        xs.append(x)
    keys = [_symkey(x) for x in xs]
    cache = {}
    cnt = part["counters"]
    for ti, (pre, suf) in enumerate(TEMPLATES):
        line = "U l6531 %d %d %d %d %s %s" % (nb, lo, hi, step, driver.hx(pre), driver.hx(suf))
        try:
            rcs = gen.parse_packed(driver.run_lines(exe, [line], raw=True))
        except driver.DriverCrash as c:
            part["viol"].append(("6531/crash/%s" % c.signature(), {"op": line}, {"stderr": c.stderr[-1500:]}))
            continue
        if len(rcs) != len(xs):
            raise core.Inconclusive("U enumeration size mismatch")
        for x, key, rc in zip(xs, keys, rcs):
            ck = (ti, key)
            exp = cache.get(ck)
            if exp is None:
                exp = OL.accepts(MODE, pre + x + suf, opts)
                cache[ck] = exp
            got = rc == 0
            if got:
                cnt["6531.accept"] += 1
            else:
                cnt["6531.reject"] += 1
                cnt["6531.err%d" % -rc] += 1
            if got != exp:
                b = pre + x + suf
                k = ("6531/accepts-invalid/%s" % LG.fail_point(MODE, b, opts)) if got else ("6531/rejects-valid/err%d" % -rc)
                part["viol"].append((k, {"mode": MODE, "local_part": core.b2s(b), "hex": b.hex()},
                                     {"library_rc": rc, "reference_accepts": exp, "source": "useq%d" % nb,
                                      "template": [core.b2s(pre), core.b2s(suf)]}))
    part["distinct"] = len(xs) * len(TEMPLATES)
    cnt["useq%d.sequences" % nb] += len(xs)
    cnt["useq%d.wellformed" % nb] += sum(1 for k in keys if k is not None)
    if xs:
        part["samples"].append({"source": "useq%d" % nb, "sequence_hex": xs[len(xs) // 2].hex(),
                                "templates": len(TEMPLATES)})
    return part


def w_list63(exe, strings, opts, src, with_email=False, subrange=False):
    """Explicit strings, mode 6531, plus the pure-ASCII relation with mode 5321 (default build only)."""
    part = LG.w_list(exe, [MODE], strings, opts, PROP, src, with_email, subrange)
    if not opts:
        lines = ["L " + driver.hx(b) for b in strings if b and max(b) < 0x80]
        asc = [b for b in strings if b and max(b) < 0x80]
        recs, _ = driver.run_lines_resilient(exe, lines)
        for b, r in zip(asc, recs):
            if r is None:
                continue
            part["counters"]["ascii-relation.checked"] += 1
            if (r[1] == 0) != (r[3] == 0):
                part["viol"].append(("6531/ascii-differs-from-5321", {"local_part": core.b2s(b), "hex": b.hex()},
                                     {"rc5321": r[1], "rc6531": r[3], "source": src}))
    return part


def four_byte_cover():
    out = set()
    edge = [0x7f, 0x80, 0x8f, 0x90, 0xbf, 0xc0]
    for b0 in range(0xf0, 0x100):
        for b1 in range(1, 256):
            for b2 in (0x7f, 0x80, 0xbf, 0xc0):
                for b3 in (0x7f, 0x80, 0xbf, 0xc0):
                    out.add(bytes([b0, b1, b2, b3]))
    for cp in (0xffff, 0x10000, 0x10001, 0x10fffe, 0x10ffff):
        out.add(chr(cp).encode("utf-8"))
    out.add(b"\xf4\x90\x80\x80")   # U+110000
    out.add(b"\xf0\x8f\xbf\xbf")   # overlong U+FFFF
    return sorted(out)


def main(tier, seed, prop=PROP):
    rep = core.Report(prop, tier, seed)
    cx = _ctx.Ctx(prop)
    exe = cx.exe("asan")
    opts = tuple(sorted(cx.builds_info()["stock_option_macros"]))
    rng = random.Random(seed)
    jobs = []
    # --- UTF-8 candidate sequences in structural positions
    jobs.append((w_useq, (exe, 1, 1, 256, 1, opts)))
    for lo in range(0, 65536, 4096):
        jobs.append((w_useq, (exe, 2, lo, lo + 4096, 1, opts)))
    if tier == "quick":
        step = 509            # prime stride through the 3-byte space, seed-shifted
        off = seed % step
        for lo in range(0, 1 << 24, 1 << 20):
            jobs.append((w_useq, (exe, 3, lo + off, lo + (1 << 20), step, opts)))
        # boundary neighbourhoods (first/last code point of every class of 3-byte encodings)
        for cp in (0x7ff, 0x800, 0xfff, 0x1000, 0xcfff, 0xd000, 0xd7ff, 0xd800, 0xdfff, 0xe000, 0xffff):
            v = int.from_bytes(chr(cp).encode("utf-8", "surrogatepass").rjust(3, b"\x00"), "big")
            if v >= 1 << 16:
                jobs.append((w_useq, (exe, 3, max(0, v - 300), min(1 << 24, v + 300), 1, opts)))
    else:
        for lo in range(0, 1 << 24, 1 << 18):
            jobs.append((w_useq, (exe, 3, lo, lo + (1 << 18), 1, opts)))
    # notable code points (BOM, soft hyphen, zero-width and bidi controls, line separators, replacement / non-characters,
    # first/last of planes) in every structural position - the strided quick sweep of the 3-byte space would miss them
    notable = [0xa0, 0xad, 0x34f, 0x61c, 0x115f, 0x180e, 0x200b, 0x200c, 0x200d, 0x200e, 0x200f, 0x2028, 0x2029, 0x202a, 0x202e, 0x2060,
               0x2066, 0x2069, 0x3000, 0x3002, 0xfe00, 0xfe0f, 0xfeff, 0xff0e, 0xff20, 0xff61, 0xfff9, 0xfffd, 0xfffe, 0xffff, 0xd7ff,
               0xe000, 0xf8ff, 0x1d173, 0x1f600, 0xe0001, 0xe0020, 0xe007f, 0xe0100, 0xf0000, 0x10fffd, 0x10ffff]
    notable = sorted(set(notable) | set(gen.aliasing_code_points()))
    npos = []
    for cp in notable:
        x = chr(cp).encode("utf-8")
        for pre, suf in TEMPLATES:
            npos.append(pre + x + suf)
    jobs.append((w_list63, (exe, sorted(set(npos)), opts, "notable-code-points", True, True)))
    # two ill-formed sequences in a row that some other encoding reads as one character: CESU-8 surrogate pairs (ED A0..AF xx ED B0..BF xx),
    # "modified UTF-8" NUL (C0 80) next to a continuation, overlong + continuation, 5- and 6-byte forms
    ill = []
    for hi in (b"\xed\xa0\x80", b"\xed\xa0\xbd", b"\xed\xaf\xbf", b"\xed\xa1\x80"):
        for lo in (b"\xed\xb0\x80", b"\xed\xb8\x80", b"\xed\xbf\xbf"):
            ill += [hi + lo, lo + hi, hi + hi]
    ill += [b"\xc0\x80\x80", b"\xe0\x80\x80\x80", b"\xf8\x88\x80\x80\x80", b"\xfc\x84\x80\x80\x80\x80", b"\xf0\x80\x80\x80\x80", b"\xc1\xbf\xbf",
            b"\xef\xbf\xbd\xed\xa0\x80", b"\xf4\x90\x80\x80\x80"]
    ipos = []
    for x in ill:
        for pre, suf in TEMPLATES:
            ipos.append(pre + x + suf)
    jobs.append((w_list63, (exe, sorted(set(ipos)), opts, "ill-formed-pairs", True, False)))
    ds = LG.dictionary_strings()
    ds += [w.replace(b"a", "\u00e9".encode()).replace(b"x", "\u4e2d".encode()) for w in ds[:: (7 if tier == "quick" else 1)]]
    ds = sorted(set(ds))
    for i in range(0, len(ds), 15000):
        jobs.append((w_list63, (exe, ds[i:i + 15000], opts, "dictionary", i == 0, False)))
    native = cx.exe("asan-native", san="asan-native")
    bl = LG.block_strings(utf8=True)
    for i in range(0, len(bl), 8000):
        jobs.append((w_list63, (exe, bl[i:i + 8000], opts, "blocks", False, False)))
        jobs.append((w_list63, (native, bl[i:i + 8000], opts, "blocks/native", False, False)))
    for i in range(0, len(ds), 15000):
        jobs.append((w_list63, (native, ds[i:i + 15000][::3], opts, "dictionary/native", False, False)))
    wb = LG.width_boundary_strings(tier, utf8=True)
    for i in range(0, len(wb), 30):
        jobs.append((w_list63, (exe, wb[i:i + 30], opts, "width-boundaries", False, False)))
    for which in ("atom", "quoted", "utf8", "utf8-cut", "late-space"):
        jobs.insert(0, (LG.w_giant, (exe, ["6531"], (9 if tier == "quick" else 33) * 1024 * 1024, opts, PROP, which)))
    jobs[0:0] = LG.huge_jobs(cx.exe("plain-O2", san="plain-O2"), ["6531"], tier, opts, PROP)
    four = four_byte_cover()
    pos = []
    for x in four:
        for pre, suf in TEMPLATES:
            pos.append(pre + x + suf)
    for i in range(0, len(pos), 20000):
        jobs.append((w_list63, (exe, pos[i:i + 20000], opts, "useq4", False)))
    # --- bounded-exhaustive token mixes
    k = 4 if tier == "quick" else 5
    pre = 2
    jobs.append((LG.w_enum, (exe, [MODE], TOKENS, pre - 1, (), opts, prop)))
    for p in itertools.product(range(len(TOKENS)), repeat=pre):
        jobs.append((LG.w_enum, (exe, [MODE], TOKENS, k - pre, p, opts, prop)))
    # --- conformance, per-byte, corpus, boundary, random
    conf = LG.conformance_strings(MODE, frozenset(opts))
    for i in range(0, len(conf), 4000):
        jobs.append((w_list63, (exe, conf[i:i + 4000], opts, "conformance", True, True)))
    bs = LG.byte_suite(MODE, frozenset(opts))
    for i in range(0, len(bs), 6000):
        jobs.append((w_list63, (exe, bs[i:i + 6000], opts, "bytes", False)))
    corp = gen.corpus_localparts()
    muts = set(corp)
    for b in corp:
        for _ in range(20 if tier == "quick" else 200):
            m = gen.mutate(b, rng, rng.randrange(1, 3))
            if m and b"\x00" not in m:
                muts.add(m)
    muts = sorted(muts)
    for i in range(0, len(muts), 4000):
        jobs.append((w_list63, (exe, muts[i:i + 4000], opts, "corpus", True, True)))
    # every non-ASCII scalar class next to dots and quotes (the statement's 'a.X.b accepted for every X')
    xs = [chr(cp).encode() for cp in (0x80, 0xe9, 0x7ff, 0x800, 0x20ac, 0xd7ff, 0xe000, 0xfffd, 0xffff, 0x10000, 0x1f600, 0x10ffff)]
    rel = []
    for x in xs:
        for y in xs[:4]:
            rel += [b"a." + x + b".b", x + b"." + y, x + b'"b"', b"a" + x + b'"b"', b'"' + x + b'".' + y, b'"\\' + x + b'"',
                    b'"' + x + b'\\""', x + b".." + y, b"." + x, x + b".", b'"a"' + x, b'"a".' + x, x + b'."a"',
                    b'"' + x + y + b'"', x * 16 + b"@"[:0], b'"\\' + x + b'""', b'a.' + x + b'.' + y + b'.b']
    jobs.append((w_list63, (exe, sorted(set(rel)), opts, "relations", True, True)))
    # sub-ranges that end inside a multi-byte character (the bytes completing it lie behind `end`)
    cut = []
    for x in xs:
        for k in range(1, len(x)):
            cut += [b"a" + x[:k], x[:k], b"a." + x[:k], b'"' + x[:k], b"a" * 62 + x[:k]]
    jobs.append((w_list63, (exe, sorted(set(cut)), opts, "cut-characters", False, True)))
    for i in range(16 if tier == "quick" else 64):
        r = random.Random(seed * 7919 + i)
        ss = LG.random_strings(MODE, r, 12 if tier == "quick" else 40, 65536 if i % 4 == 0 else 2000, frozenset(opts))
        jobs.append((w_list63, (exe, ss, opts, "random", False)))
    for part in core.pmap(_run, jobs):
        rep.merge(part)
    c = rep.counters
    evaluations = c["6531.accept"] + c["6531.reject"]
    _, trans = OL.reachable(MODE, frozenset(opts))
    total = {"%s+%s" % (s, cl) for (s, cl) in trans if s != "X"}
    seen = rep.cov.pop("transitions." + MODE, set()) & total
    rep.require(not (len(seen) < len(total)), "reference transition cover incomplete: %s" % sorted(total - seen)[:5])
    rep.require(rep.counters.get("huge.strings", 0) > 0, "no 2 GiB input could be allocated")
    rep.assumptions += ["Python's strict UTF-8 codec defines well-formedness (no overlongs, surrogates, > U+10FFFF)",
                        "R-LOCAL(6531) = RFC 5321 automaton with every non-ASCII scalar as one atom/qtext symbol that cannot be escaped"]
    three = "all 2^24" if tier != "quick" else "stride-509 sample + 600-wide neighbourhoods of every encoding boundary"
    return rep.finish(evaluations, rep.distinct_count,
                      "all 1- and 2-byte sequences, 3-byte sequences (%s), structured 4-byte cover, each in %d structural "
                      "positions; all strings up to length %d over %d tokens (ASCII classes + well/ill-formed multi-byte); "
                      "conformance + per-byte suites; corpus mutations; random walks to 64 KiB. distinct = generated "
                      "(sequence, position) pairs and distinct strings per shard; local parts of 9 MiB under ASan and of 2^31.. bytes (thorough: to 2^32+3) in an -O2 build, built inside the driver" % (three, len(TEMPLATES), k, len(TOKENS)),
                      {"reference_automaton": {"transitions_total": len(total), "transitions_exercised": len(seen)},
                       "templates": [[core.b2s(a), core.b2s(b)] for a, b in TEMPLATES],
                       "tokens": [core.b2s(t) for t in TOKENS], "builds": cx.builds_info()})


def _run(fn, args):
    return fn(*args)
