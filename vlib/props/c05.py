"""C05 - address literals: only [IPv4] or [IPv6:addr], nothing trailing, family reported.

High-level and low-level calls in all four modes on x@D for grammar-directed, enumerated and mutated bracket contents,
judged by the three-valued R-LITERAL (MUST_ACCEPT / MUST_REJECT / EITHER) and the family of the address present."""
import itertools, random
from .. import core, ctx as _ctx, domgen as DG, gen

PROP = "C05"


def main(tier, seed, prop=PROP):
    rep = core.Report(prop, tier, seed)
    cx = _ctx.Ctx(prop)
    exe = cx.exe("asan")
    rng = random.Random(seed)
    doms = set(DG.literal_domains(tier, rng))
    toks = DG.LIT_TOKENS_Q if tier == "quick" else DG.LIT_TOKENS_T
    k = 5 if tier == "quick" else 6
    for pre in (b"[", b"[IPv6:", b"[1.2.3.", b"[IPv6:1:2:3:4:5:6:"):
        doms.update(DG.literal_enum(toks, k if pre in (b"[", b"[IPv6:") else k - 1, pre))
    for a in gen.corpus_addresses():
        i = a.rfind(b"@")
        d = a[i + 1:]
        if d[:1] == b"[":
            doms.add(d)
            for _ in range(40 if tier == "quick" else 400):
                m = gen.mutate(d, rng, rng.randrange(1, 3))
                if m[:1] == b"[" and b"\x00" not in m and b"@" not in m:
                    doms.add(m)
    doms = sorted(d for d in doms if b"@" not in d)
    jobs = []
    for i in range(0, len(doms), 2500):
        jobs.append((DG.w_literal, (exe, doms[i:i + 2500], "literals")))
    jobs[0:0] = DG.huge_jobs(cx.exe("plain-O2", san="plain-O2"), DG.huge_literal_cases(tier))
    for part in core.pmap(_run, jobs):
        rep.merge(part)
    rep.require(rep.counters.get("huge.strings", 0) > 0, "no 2 GiB input could be allocated")
    c = rep.counters
    evaluations = c["hl.accept"] + c["hl.reject"] + c["ll.accept"] + c["ll.reject"]
    rep.require(not (not (c["verdict.MUST_ACCEPT"] and c["verdict.MUST_REJECT"] and c["verdict.EITHER"])), "generator did not reach every verdict region")
    rep.assumptions += ["R-LITERAL: MUST_ACCEPT = RFC 5321 4.1.3 forms with non-zero first octet; MUST_REJECT = not exactly "
                        "'[' (dotted quad <=255 | [IPv6:]RFC 4291 address) ']'; everything else is not judged (EITHER)"]
    return rep.finish(evaluations, rep.distinct_count,
                      "every octet 0-300 x position x 1-4 digits, every IPv6 shape (0-8 groups before/after '::', widths, case, 9 "
                      "tails) bare and IPv6:-tagged, 13 tags, bytes before/after/inside the brackets, all strings up to length %d "
                      "over %d literal tokens after '[' , '[IPv6:' and two partial prefixes, corpus literal mutations; 4 modes x tld "
                      "on/off x high/low-level API; literals of 2^31 bytes (thorough: to 2^32) in an -O2 build; distinct = distinct domains" % (k, len(toks)),
                      {"builds": cx.builds_info()})


def _run(fn, args):
    return fn(*args)
