"""C16 - result record consistent with the decision and the form of the domain (default and EAV_EXTRA builds)."""
from .. import core
from . import addr_common

PROP = "C16"


def main(tier, seed):
    rep, cx, n = addr_common.run(
        PROP, tier, seed, sections=1 | 2 | 4 | 8,
        variants=[("asan", {}, False), ("asan-extra", {"defs": ["EAV_EXTRA"]}, True)], rule="",
        assumptions=["'syntactically invalid' = the composition of the per-part validators (tld off) rejects",
                     "domain not FQDN / TLD errors are not syntax errors (flags may stay set there)"])
    c = rep.counters
    rep.require(not (not c["extra.records"]), "EAV_EXTRA build produced no records")
    return rep.finish(c["records"], rep.distinct_count,
                      "C01 address corpus; every result record of eav_is_email and is_<rfc>_email in 4 modes x tld off/on, in the "
                      "default and the EAV_EXTRA build; distinct = distinct addresses per build",
                      {"builds": cx.builds_info()})
