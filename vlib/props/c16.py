"""C16 - result record consistent with the decision and the form of the domain (default and EAV_EXTRA builds)."""
from .. import core
from . import addr_common

PROP = "C16"


def extra_jobs(tier, seed):
    import os
    SHIM = os.path.join(core.VERIF, "shim", "idn")

    def f(cx, exe, opts, extra, name):
        if name != "asan-extra":
            return []
        from .. import addrgen as AG, model as _model
        mdl = _model.Model()
        addrs = AG.address_corpus("quick", seed, mdl)[seed % 4::4]
        ref = cx.exe("asan")
        jobs = []
        for b in ("idn", "idnkit"):
            fexe = cx.exe("asan-extra-%s" % b, backend=b, defs=["EAV_EXTRA"], extra_inc=(SHIM,), extra_objs_srcs=[os.path.join(SHIM, "adapter.c")])
            for i in range(0, len(addrs), 1500):
                jobs.append((w_foreign, (fexe, ref, addrs[i:i + 1500], b, opts)))
        return jobs
    return f


def w_foreign(fexe, ref, addrs, backend, opts):
    """High-level records of a foreign back end (EAV_EXTRA build) judged with the per-part verdicts of the libidn2 build."""
    import collections
    from .. import monitors, model as _model, driver, addrgen as AG
    mdl = _model.Model()
    cfg = monitors.Cfg(mdl, opts, True, {}, None)
    part = {"counters": collections.Counter(), "viol": [], "samples": [], "distinct": 0, "sets": {}}
    hl, c1 = driver.run_lines_resilient(fexe, [driver.A_line(a, sections=1, allow=cfg.allow_on) for a in addrs])
    pt, c2 = driver.run_lines_resilient(ref, [driver.A_line(a, sections=4 | 8, allow=cfg.allow_on) for a in addrs])
    for idx, sig, err in c1:
        part["viol"].append(("%s/crash/%s" % (backend, sig), {"address": core.b2s(addrs[idx]) if idx >= 0 else ""}, {"stderr": err[-1500:]}))
    for a, h, p in zip(addrs, hl, pt):
        if h is None or p is None:
            continue
        rec = dict(p)
        rec["hl"] = h["hl"]
        out = []
        monitors.mon_c16(cfg, a, rec, out, part["counters"])
        for key, wit, det in out:
            part["viol"].append(("%s/%s" % (backend, key), dict(wit, backend=backend), det))
    part["distinct"] = len(addrs)
    return {PROP: part}


def main(tier, seed):
    rep, cx, n = addr_common.run(
        PROP, tier, seed, sections=1 | 2 | 4 | 8,
        variants=[("asan", {}, False), ("asan-extra", {"defs": ["EAV_EXTRA"]}, True),
                  ("asan-extra-ndebug", {"defs": ["EAV_EXTRA", "NDEBUG"]}, True)], rule="", extra_jobs=extra_jobs(tier, seed),
        assumptions=["'syntactically invalid' = the composition of the per-part validators (tld off) rejects",
                     "domain not FQDN / TLD errors are not syntax errors (flags may stay set there)"])
    # the record of the *second* of two different addresses validated back to back on one object (near-duplicates, digest collisions;
    # generator and trace monitor of C13, EAV_EXTRA build: lpart / domain belong to the address just validated)
    from . import c13
    from .. import histmon as HM
    hexe = cx.exe("asan-hist-extra", driver=("drv/hist.c",), defs=["EAV_EXTRA"])
    dup = c13.near_duplicate_pool()
    dprogs = []
    for i in range(0, len(dup), 2):
        for m in (3, 0):
            for t in ("t1", "t0"):
                dprogs.append(["r%d" % m, "s", t, "e%d" % i, "e%d" % (i + 1), "e%d" % i, "e%d" % i, "e%d" % (i + 1)])
    part = c13.w_hist(hexe, dup, dprogs, True, "back-to-back")
    rep.merge({"counters": {"back-to-back." + k: v for k, v in part["counters"].items()},
               "viol": [("back-to-back/" + v[0],) + tuple(v[1:]) for v in part["viol"]], "samples": [], "distinct": 0})
    c = rep.counters
    rep.require(not (not c["extra.records"]), "EAV_EXTRA build produced no records")
    return rep.finish(c["records"], rep.distinct_count,
                      "C01 address corpus; every result record of eav_is_email and is_<rfc>_email in 4 modes x tld off/on, in the "
                      "default, the EAV_EXTRA and the EAV_EXTRA+NDEBUG build, EAV_EXTRA builds of the two foreign back ends; addresses with a 2^31-byte local part (-O2 build); distinct = distinct addresses per build",
                      {"builds": cx.builds_info()})
