"""C19 - IDN-library failures are contained (fault enumeration through --wrap=idn2_to_ascii_8z).

Every libidn2 error code (+2 unknown codes) is injected at every conversion position of runs of 1-N validations, with and
without a leftover output buffer; the faulted call must be rejected with EEAV_IDN_ERROR, idn_rc = injected code, the library's
message, no flag; every other call must equal the fault-free (fresh-object) outcome; the allocation ledger and LSan see every
injected buffer freed exactly once."""
import itertools, random, re
from .. import core, ctx as _ctx, histmon as HM, model as _model, driver, addrgen as AG

PROP = "C19"
POOL = ["user@почта.рф".encode(), b"user@mail.ru", "иван@иванов.рф".encode(), b"u@[1.2.3.4]", "x@在线.在线".encode(),
        b"a..b@c.com", b"u@a.zzzz", "u@☕.de".encode(), b"u@example.com", "ü@bücher.de".encode(),
        b"u@" + b".".join([b"a" * 63, b"b" * 63, b"c" * 63, b"d" * 61]),            # 253 octets
        b"u@" + b".".join([b"a" * 63, b"b" * 63, b"c" * 63, b"d" * 61]) + b".",     # 254 with root dot
        b"u@xn--80a1acny.xn--p1ai", b"u@localhost", b"u@mail.ru.", "u@почта.рф.".encode(), b"u@" + b"a." * 126 + b"b"]


def idn2_codes():
    txt = open("/usr/include/idn2.h").read()
    codes = sorted({int(m.group(1)) for m in re.finditer(r"IDN2_[A-Z0-9_]+\s*=\s*(-\d+)", txt)})
    return codes + [-150, -399]


def w_fault(exe, idnexe, programs, src):
    part = HM.new_part()
    mdl = _model.Model()
    msgs = AG.get_idnmsgs(idnexe)
    traces, crashes = HM.run_histories(exe, POOL, programs)
    for idx, sig, err in crashes:
        p = programs[idx] if 0 <= idx < len(programs) else []
        part["viol"].append(("crash/%s" % sig, {"history": " ".join(p)}, {"stderr": err[-1500:], "source": src}))
    conv = 0
    for prog, tr in zip(programs, traces):
        if tr is None:
            continue
        end = HM.check_trace(prog, tr, mdl, part, idnmsgs=msgs, src=src)
        planned = sum(1 for o in prog if o[0] == "F")
        part["counters"]["faults.planned"] += planned
        conv = max(conv, end[11] or 0)
        if end[13] not in (-1, None):
            part["counters"]["faults.not-fired"] += 1
    part["counters"]["conversions"] += conv
    part["distinct"] = len(programs)
    if programs:
        part["samples"].append({"source": src, "history": " ".join(programs[len(programs) // 2][:30]),
                                "pool": [core.b2s(a) for a in POOL]})
    return part


def main(tier, seed):
    rep = core.Report(PROP, tier, seed, level="fault_enumeration")
    cx = _ctx.Ctx(PROP)
    exe = cx.exe("asan-wrap", driver=("drv/hist.c",), ldflags=("-Wl,--wrap=idn2_to_ascii_8z",), driver_defs=("VERIF_WRAP_IDN2",))
    idnexe = cx.exe("asan")
    rng = random.Random(seed)
    codes = idn2_codes()
    progs = []
    nmax = 12 if tier == "quick" else 50
    # single fault at every conversion position x every code x both buffer modes, runs of n validations (mode 6531)
    runs = [1, 2, 5, 12] if tier == "quick" else [1, 2, 3, 5, 8, 12, 20, 50]
    for n in runs:
        for tld in ("t0", "t1"):
            base = [rng.randrange(len(POOL)) for _ in range(n)]
            for k in range(1, n + 1):
                for code in codes:
                    for buf in (0, 1):
                        progs.append(["r3", "s", tld, "F%d:%d:%d" % (k, code, buf)] + (["a7ff"] if (k + buf) % 3 == 0 else []) +
                                     ["e%d" % i for i in base] + ["m", "m"])
    # random multi-fault sequences with interleaved mode switches
    for _ in range(4000 if tier == "quick" else 200000):
        p = ["r3", "s"]
        for _ in range(rng.randrange(3, 30)):
            r = rng.random()
            if r < 0.15:
                p.append("F%d:%d:%d" % (rng.randrange(1, 4), rng.choice(codes), rng.randrange(2)))
            elif r < 0.22:
                p += ["r%d" % rng.randrange(4), "s"]
            elif r < 0.27:
                p.append(rng.choice(["t0", "t1", "m", "f", "a7ff", "a2", "ad", "a0"]))
                if p[-1] == "f":
                    p += ["r3", "s"]
            else:
                p.append("e%d" % rng.randrange(len(POOL)))
        progs.append(p)
    jobs = [(w_fault, (exe, idnexe, progs[i:i + 1500], "faults")) for i in range(0, len(progs), 1500)]
    # the same containment with several threads failing at once with *different* codes (natural IDN failures; own eav_t per thread): the
    # message must still be the library's message for that thread's code.  Runner and pool of C14, uninstrumented, full speed.
    thr = cx.exe("plain-thr", driver=("drv/thr.c",), san="plain-O2")
    for j in range(3):
        jobs.append((w_threads, (thr, 16 if j else 4, 8000 if tier == "quick" else 80000, seed * 10 + j)))
    for part in core.pmap(_run, jobs):
        rep.merge(part)
    c = rep.counters
    rep.require(not (c["faults.fired"] == 0), "no injected fault fired")
    rep.assumptions += ["faults are injected at the libidn2 boundary (idn2_to_ascii_8z) by link-time wrapping; the fresh-object "
                        "reference run is exempt from injection"]
    return rep.finish(c["is_email"], rep.distinct_count,
                      "%d libidn2 return codes (all of idn2.h + 2 unknown) x {no output buffer, live output buffer} x every conversion "
                      "position of runs of %s validations (tld off/on), plus random multi-fault histories with mode switches and "
                      "free+init; distinct = histories" % (len(codes), runs),
                      {"codes": codes, "faults_fired": c["faults.fired"], "faults_planned": c["faults.planned"],
                       "faults_not_fired": c["faults.not-fired"], "builds": cx.builds_info()})


def w_threads(exe, T, iters, seed):
    import collections, json
    from . import c14
    part = {"counters": collections.Counter(), "viol": [], "samples": [], "distinct": 0, "sets": {}}
    res = c14.w_plain(exe, T, iters, seed, 2, "idn")
    try:
        info = json.loads(res["out"]) if res["out"] else None
    except ValueError:
        info = None
    if res["rc"] is None:
        part["viol"].append(("concurrent-failures/hang", {"threads": T, "seed": seed}, {}))
    elif res["rc"] != 0 or info is None:
        part["viol"].append(("concurrent-failures/crash/%s" % driver.crash_signature(res["err"], res["rc"]), {"threads": T, "seed": seed},
                             {"stderr": res["err"][-1200:]}))
    else:
        part["counters"]["threads.calls"] += info["calls"]
        part["counters"]["threads.calls_overlapping_another_thread"] += info["calls_overlapping_another_thread"]
        if info["mismatches"]:
            fm = info.get("first_mismatch", {})
            part["viol"].append(("concurrent-failures/outcome-or-message-differs-from-sequential", {"threads": T, "seed": seed,
                                  "input": core.b2s(bytes.fromhex(fm.get("input", ""))) if fm else None}, {"mismatches": info["mismatches"], "first": fm}))
    return part


def _run(fn, args):
    return fn(*args)
