"""Shared runner for the record-based checks C01, C12, C15, C16."""
import random
from .. import core, ctx as _ctx, addrgen as AG, model as _model, driver


def run(prop, tier, seed, sections, variants, rule, assumptions, extra_jobs=None, post=None, allow_on=None):
    """variants: list of (name, build kwargs, extra_flag)."""
    rep = core.Report(prop, tier, seed)
    cx = _ctx.Ctx(prop)
    mdl = _model.Model()
    addrs = AG.address_corpus(tier, seed, mdl)
    stock = cx.builds_info()["stock_option_macros"]
    jobs = []
    chunk = 1500
    for name, kw, extra in variants:
        exe = cx.exe(name, **kw)
        opts = tuple(sorted(set(stock) | set(kw.get("defs") or []) - {"EAV_EXTRA", "NDEBUG"}))
        for i in range(0, len(addrs), chunk):
            jobs.append((AG.w_addr, (exe, addrs[i:i + chunk], [prop], opts, extra, sections, allow_on, name)))
        if extra_jobs:
            jobs += extra_jobs(cx, exe, opts, extra, name)
    if prop in ("C01", "C16"):
        # addresses whose local part has 2 GiB and more (lengths that do not fit an int), uninstrumented build, high-level call only
        from .. import localgen as LG
        jobs[0:0] = LG.huge_jobs(cx.exe("plain-O2", san="plain-O2"), ["822", "5321", "5322", "6531"], tier, tuple(sorted(stock)), prop,
                                 lanes=2, direct=False)
    for parts in core.pmap(_run, jobs):
        rep.merge(parts[prop] if prop in parts else parts)
    if post:
        post(rep, cx)
    rep.assumptions += assumptions
    c = rep.counters
    return rep, cx, len(addrs)


def _run(fn, args):
    return fn(*args)
