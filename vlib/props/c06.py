"""C06 - memory safety, no UB, no abort, no leak, linear-time termination on every input.

Instruments: (1) ASan+UBSan+LSan builds (default and EAV_EXTRA) with every input in an exactly sized heap block; (2) hostile
placement (guard pages before/after, read-only input pages) on uninstrumented -O2/-O0 builds; (3) valgrind memcheck with the
eav_t in uninitialised heap memory + poison differential; (4) allocation ledger over call histories; (5) callgrind instruction
counts as a deterministic cost clock on adversarial families at doubling sizes; (6) thorough: libFuzzer over all entry points."""
import collections, json, os, random, re, shutil, subprocess, time
from .. import core, ctx as _ctx, build, driver, gen, model as _model, addrgen as AG, histmon as HM

PROP = "C06"
FAMILIES = ["dots", "ats", "quotes", "backslashes", "v4", "colons", "v6groups", "longlabel", "labels", "utf8", "utf8dom", "crlf",
            "qwords", "brackets", "hyphens", "labels-reserved", "local-literal", "open-brackets", "zeros-literal", "escaped-quotes", "dots-then-error",
            "spaces"]
ENTRIES_Q = ["eav822", "eav5321", "eav5322", "eav6531", "udom", "ipaddr", "special", "adom"]
ENTRIES_T = ENTRIES_Q + ["l822", "l5321", "l5322", "l6531", "tld"]


def new_part():
    return {"counters": collections.Counter(), "viol": [], "samples": [], "distinct": 0, "sets": {}}


def structural_cases(tier, rng):
    out = set()
    bases = [b"ab@cd.ef", b'"a"@[1.2.3.4]', b"a.b@[IPv6:1::2]", b'"a\\b".c@example.com', "é@почта.рф".encode(), b"a@b", b"@", b"a@[1.2.3.4]x",
             b'"\r\n "@a.test', b"a@xn--p1ai.xn--p1ai", b"a@abcdefg.test", b"a@example.com."]
    for b in bases:
        for pos in range(len(b) + 1):
            for c in range(1, 256):
                if tier == "quick" and c % 3 and c not in b'@[].":\\ \r\n\t-' and c < 0x7f and c > 0x20:
                    continue
                x = bytes([c])
                out.add(b[:pos] + x + b[pos:])
                if pos < len(b):
                    out.add(b[:pos] + x + b[pos + 1:])
    # every byte value as first / last byte and on both sides of the structural characters
    for c in range(1, 256):
        x = bytes([c])
        for s in (b"@", b"[", b"]", b".", b'"'):
            out.update([x + s, s + x, b"a" + x + s + b"b", b"a" + s + x + b"b", x + b"a@b.c" , b"a@b.c" + x, b"a" + s + x, x + s + b"a"])
    out.add(b"")
    # names a direct caller may pass to the domain validators although they are no host names: words the library treats specially next
    # to labels of 62..70, 127, 255, 256 and 1000 bytes (fixed-size label buffers, length pre-checks)
    from .. import words
    for w in words.RESERVED_WORDS + [b"com", b"net", b"org", b"xn--p1ai", b"arpa"]:
        for n in (62, 63, 64, 65, 66, 70, 127, 128, 255, 256, 1000):
            lab = b"a" * n
            for d in (w + b"." + lab, lab + b"." + w, lab + b"." + w + b".com", w + b"." + lab + b".", b"x." + w + b"." + lab, w + b"-" + lab,
                      (w * (n // len(w) + 1))[:n] + b".com", w + b"." + "\u00e9".encode() * (n // 2)):
                out.add(b"u@" + d)
    return sorted(o for o in out if b"\x00" not in o)


def long_cases(tier, rng):
    out = []
    sizes = [1000, 4096, 65536] if tier == "quick" else [1000, 4096, 16384, 65536, 262144, 1048576]
    units = [b"a.", b"@", b'"', b"\\", b"0.", b":", b"1:", b"a", b"ab.", "а".encode(), "а.".encode(), b"\r\n ", b'"a".', b"]", b"[", b"a-", b"\xff",
             b"-", b"_", b" "]
    for n in sizes:
        for u in units:
            body = (u * (n // len(u) + 1))[:n]
            out += [body, body + b"@a.bc", b"x@" + body, b"x@[" + body + b"]", b"x@[IPv6:" + body + b"]", b'"' + body + b'"@a.bc',
                    b"x@" + body + b".com"]
        for _ in range(4 if tier == "quick" else 20):
            out.append(gen.rand_bytes(rng, n))
            out.append(gen.rand_bytes(rng, n // 2) + b"@" + gen.rand_bytes(rng, n // 2))
    # three inputs larger than the default 8 MiB stack (a scanner must not copy its input onto the stack or recurse per byte)
    big = 9 * 1024 * 1024 if tier == "quick" else 17 * 1024 * 1024
    out += [b"a" * big, b"x@" + b"a" * big, (b"ab." * (big // 3)) + b"com", b'"' + b"a" * big + b'"@a.bc', "é".encode() * (big // 2) + b"@a.bc",
            b"x@" + "é".encode() * (big // 2)]
    if tier == "quick":
        # a few inputs well beyond 64 KiB also in the quick tier (int/size_t width, buffer-size assumptions)
        for u in (b"a.", b"1:", "а".encode(), b'"a".', b"\xff", b"a"):
            body = (u * (300000 // len(u) + 1))[:300000]
            out += [body + b"@a.bc", b"x@" + body, b"x@[" + body + b"]", b'"' + body + b'"@a.bc']
    return [o for o in out if b"\x00" not in o]


def w_asan(exe, cases, variant, src):
    part = new_part()
    lines = []
    owner = []
    for a in cases:
        lines.append(driver.A_line(a, sections=15))
        lines.append("L " + driver.hx(a))
        lines.append("D " + driver.hx(a))
        owner += [a, a, a]
        at = a.rfind(b"@")
        if 0 <= at and len(a) < 70000:
            # the two halves handed to the direct validators on their own (a caller of is_special_domain / is_ascii_domain / is_ipaddr
            # passes a domain, not an address)
            if at + 1 < len(a):
                lines.append("D " + driver.hx(a[at + 1:]))
                owner.append(a)
            if at > 0:
                lines.append("L " + driver.hx(a[:at]))
                owner.append(a)
    recs, crashes = driver.run_lines_resilient(exe, lines, timeout=1200)
    for idx, sig, err in crashes:
        a = owner[idx] if idx >= 0 else b""
        part["viol"].append(("asan/%s" % sig, {"input": core.b2s(a)[:300], "hex": a.hex()[:2000], "build": variant},
                             {"stderr": err[-2500:], "op": lines[idx][:2] if idx >= 0 else "exit", "source": src}))
    n = sum(1 for r in recs if r is not None)
    part["counters"]["asan.%s.records" % variant] += n
    part["counters"]["asan.calls"] += n            # driver operations answered (each runs 4-50 library calls)
    part["counters"]["asan.max_input_len"] = max([len(a) for a in cases] or [0])
    part["distinct"] = len(set(cases))
    if cases:
        part["samples"].append({"source": src, "build": variant, "input": core.b2s(cases[len(cases) // 2][:80])})
    return part


def w_mem(exe, cases, variant):
    part = new_part()
    lines = [driver.hx(a) if a else "-" for a in cases]
    recs, crashes = driver.run_lines_resilient(exe, lines, env=dict(os.environ, LC_ALL="C"), timeout=1200)
    for idx, sig, err in crashes:
        a = cases[idx] if idx >= 0 else b""
        part["viol"].append(("placement/abort/%s" % sig, {"input": core.b2s(a)[:300], "hex": a.hex()[:2000], "build": variant},
                             {"stderr": err[-1500:]}))
    for a, r in zip(cases, recs):
        if r is None:
            continue
        part["counters"]["placement.cases"] += 1
        for pl, stage, off, sig in r["faults"]:
            kind = "over-read" if off >= len(a) else "under-read" if off < 0 else "write-or-inside"
            part["viol"].append(("placement/%s/%s/%s" % (kind, pl, stage), {"input": core.b2s(a)[:300], "hex": a.hex()[:2000], "build": variant},
                                 {"fault_offset_from_string_start": off, "length": len(a), "signal": sig}))
    part["counters"]["placement.calls"] += part["counters"]["placement.cases"] * 2      # two placements per case, ~40 entry-point calls each
    part["distinct"] = len(set(cases))
    return part


def w_memcheck(exe, cases):
    part = new_part()
    lines = [driver.A_line(a, sections=3 | 16 | 32 if i % 4 == 0 else 3) for i, a in enumerate(cases)] + ["S 2", "S 77"]
    data = ("\n".join(lines) + "\nQ\n").encode()
    cmd = ["valgrind", "--tool=memcheck", "-q", "--error-exitcode=68", "--track-origins=yes", "--leak-check=full",
           "--errors-for-leak-kinds=definite,indirect", exe]
    p = subprocess.run(cmd, input=data, stdout=subprocess.PIPE, stderr=subprocess.PIPE,
                       env=dict(os.environ, VERIF_POISON="none", LC_ALL="C"), timeout=1500)
    err = p.stderr.decode("utf-8", "replace")
    part["counters"]["memcheck.records"] += p.stdout.count(b"\n")
    if p.returncode != 0:
        blocks = [b for b in re.split(r"\n==\d+== \n", err) if "==" in b]
        srcs = set(os.listdir(os.path.join(build.REPO, "src"))) | set(os.listdir(os.path.join(build.REPO, "partial", "idn2")))
        seen = 0
        for blk in blocks:
            m = re.search(r"==\d+== ([A-Z][^\n]+)", blk)
            kind = re.sub(r"[^A-Za-z]+", "-", (m.group(1) if m else "error"))[:50].strip("-")
            frame = "?"
            for fm in re.finditer(r"(?:at|by) 0x[0-9A-F]+: (\S+) \((\S+?):(\d+)\)", blk):
                if fm.group(2) in srcs:
                    frame = "%s@%s" % (fm.group(1), fm.group(2))
                    break
            if frame == "?" and "exec.c" not in blk:
                continue
            seen += 1
            part["viol"].append(("memcheck/%s/%s" % (kind, frame), {"tool": "memcheck", "cases": len(cases)}, {"report": blk[:1800]}))
        if not seen:
            part["viol"].append(("memcheck/exit%d" % p.returncode, {"tool": "memcheck"}, {"stderr": err[-1500:]}))
    part["distinct"] = len(cases)
    part["samples"].append({"source": "memcheck", "cases": len(cases), "eav_t": "uninitialised heap block"})
    return part


def w_poison(exe, cases):
    part = new_part()
    lines = [driver.A_line(a, sections=3) for a in cases]
    outs = []
    for p in ("0", "255", "165", "90"):
        try:
            outs.append(driver.run_lines(exe, lines, env=build.san_env({"VERIF_POISON": p}), parse=False))
        except driver.DriverCrash as c:
            part["viol"].append(("poison/crash/%s" % c.signature(), {"poison": p}, {"stderr": c.stderr[-1500:]}))
            return part
    for i, a in enumerate(cases):
        part["counters"]["poison.compared"] += 1
        if len({o[i] for o in outs}) != 1:
            part["viol"].append(("poison/outcome-depends-on-prior-memory-content", {"input": core.b2s(a)}, {"records": [o[i][:200] for o in outs]}))
    part["distinct"] = len(cases)
    return part


def w_ledger(exe, pool, extra):
    part = new_part()
    mdl = _model.Model()
    progs = []
    for m in range(4):
        for t in ("t0", "t1"):
            p = ["r%d" % m, "s", t]
            for i in range(len(pool)):
                p += ["e%d" % i, "e%d" % ((i * 7 + 3) % len(pool))]
                if i % 5 == 4:
                    p += ["f", "r%d" % m, "s", t]
            progs.append(p)
    traces, crashes = HM.run_histories(exe, pool, progs)
    for idx, sig, err in crashes:
        part["viol"].append(("ledger/crash/%s" % sig, {"history": " ".join(progs[idx][:30]) if 0 <= idx < len(progs) else "exit"}, {"stderr": err[-1500:]}))
    for prog, tr in zip(progs, traces):
        if tr is None:
            continue
        HM.check_trace(prog, tr, mdl, part, extra=extra, src="ledger")
        part["counters"]["ledger.mallocs"] = max(part["counters"]["ledger.mallocs"], tr[-1][2])
        part["counters"]["ledger.frees"] = max(part["counters"]["ledger.frees"], tr[-1][3])
    part["viol"] = [("ledger/" + v[0] if not v[0].startswith("ledger") else v[0],) + tuple(v[1:]) for v in part["viol"]]
    part["distinct"] = len(progs)
    return part


def w_size_ladder(exe, extra):
    """One object validating addresses of very different sizes in every order of (long, short, longer / shorter): memory an object keeps
    between calls (a private copy, a scratch buffer) has to be sized for each call anew - ASan watches the block bounds."""
    part = new_part()
    mdl = _model.Model()
    sizes = [6, 300, 5000, 33000, 40000, 66000, 70000, 131000, 140000, 262200]
    pool = []
    for n in sizes:
        pool += [b"x" * max(1, n - 5) + b"@a.bc", b"u@" + (b"ab." * (n // 3 + 1))[:max(1, n - 6)] + b".com", ("\u00e9" * (n // 2)).encode() + b"@a.bc"]
    progs = []
    k = len(sizes)
    for m in (0, 3):
        for v in range(3):
            for i in range(k):
                for j in range(k):
                    if i == j:
                        continue
                    for s_ in (0, 1):
                        progs.append(["r%d" % m, "s", "t%d" % (v & 1), "e%d" % (3 * i + v), "e%d" % (3 * s_ + v), "e%d" % (3 * j + v), "e%d" % (3 * s_ + (v + 1) % 3),
                                      "e%d" % (3 * i + v), "f", "r%d" % m, "s", "e%d" % (3 * j + v), "e%d" % (3 * i + v)])
    traces, crashes = HM.run_histories(exe, pool, progs)
    for idx, sig, err in crashes:
        part["viol"].append(("size-ladder/crash/%s" % sig, {"history": " ".join(progs[idx]) if 0 <= idx < len(progs) else "exit",
                                                            "sizes": sizes}, {"stderr": err[-1500:]}))
    for prog, tr in zip(progs, traces):
        if tr is None:
            continue
        HM.check_trace(prog, tr, mdl, part, extra=extra, src="size-ladder")
    part["viol"] = [("size-ladder/" + v[0] if not v[0].startswith("size-ladder") else v[0],) + tuple(v[1:]) for v in part["viol"]]
    part["counters"]["size-ladder.histories"] += len(progs)
    part["distinct"] = len(progs)
    return part


def w_cost(exe, entry, family, sizes, tmpdir):
    part = new_part()
    irs = []
    for n in sizes:
        outf = os.path.join(tmpdir, "cg.%s.%s.%d.%d" % (entry, family, n, os.getpid()))
        cmd = ["valgrind", "--tool=callgrind", "--toggle-collect=cost_target", "--callgrind-out-file=" + outf,
               "--dump-instr=no", "--compress-strings=no", exe, entry, family, str(n)]
        try:
            p = subprocess.run(cmd, stdout=subprocess.PIPE, stderr=subprocess.PIPE, timeout=900, env=dict(os.environ, LC_ALL="C"))
        except subprocess.TimeoutExpired:
            part["viol"].append(("cost/no-termination/%s/%s" % (entry, family), {"entry": entry, "family": family, "n": n}, {"timeout_s": 900}))
            return part
        err = p.stderr.decode("utf-8", "replace")
        m = re.search(r"Collected : (\d+)", err)
        try:
            os.unlink(outf)
        except OSError:
            pass
        if p.returncode != 0 or not m:
            if p.returncode < 0 or "Assertion" in err or p.returncode == 134:
                part["viol"].append(("cost/abort/%s/%s" % (entry, family), {"entry": entry, "family": family, "n": n}, {"stderr": err[-800:], "rc": p.returncode}))
                return part
            raise core.Inconclusive("callgrind run failed: %s %s %s rc=%s %s" % (entry, family, n, p.returncode, err[-300:]))
        irs.append(int(m.group(1)))
        part["counters"]["cost.runs"] += 1
    incs = [irs[i + 1] - irs[i] for i in range(len(irs) - 1)]
    for i in range(len(incs) - 1):
        if incs[i + 1] > 2.5 * max(incs[i], 0) + 20000:
            part["viol"].append(("cost/super-linear/%s/%s" % (entry, family), {"entry": entry, "family": family, "sizes": sizes},
                                 {"instructions": irs, "increments": incs}))
            break
    part["samples"].append({"source": "cost", "entry": entry, "family": family, "sizes": sizes, "instructions": irs})
    part["distinct"] = len(sizes)
    return part


def w_fuzz(exe, runs, seed, corpus_dir, workdir):
    part = new_part()
    art = os.path.join(workdir, "art-%d/" % seed)
    os.makedirs(art, exist_ok=True)
    cdir = os.path.join(workdir, "corp-%d" % seed)
    shutil.copytree(corpus_dir, cdir)
    dict_path = os.path.join(workdir, "dict-%d" % seed)
    with open(dict_path, "w") as f:
        for tkn in ['"@"', '"["', '"]"', '"[IPv6:"', '"."', '".."', '"\\""', '"\\\\"', '"::"', '"xn--"', '".test"', '".example.com"', '"\\x0d\\x0a "',
                    '"\\xd1\\x80\\xd1\\x84"', '"localhost"', '"1.2.3.4"', '"-"', '"_"']:
            f.write(tkn + "\n")
    cmd = [exe, "-runs=%d" % runs, "-seed=%d" % seed, "-max_len=4096", "-rss_limit_mb=4096", "-artifact_prefix=" + art, "-dict=" + dict_path, "-print_final_stats=1", cdir]
    p = subprocess.run(cmd, stdout=subprocess.PIPE, stderr=subprocess.PIPE, timeout=3000,
                       env=build.san_env({"ASAN_OPTIONS": "abort_on_error=1:detect_leaks=1:handle_abort=1"}))
    err = p.stderr.decode("utf-8", "replace")
    m = re.search(r"stat::number_of_executed_units: (\d+)", err)
    part["counters"]["fuzz.executions"] += int(m.group(1)) if m else 0
    m = re.search(r"cov: (\d+)", err[::-1][:0] or err)
    covs = re.findall(r"cov: (\d+)", err)
    if covs:
        part["counters"]["fuzz.edges_covered"] = int(covs[-1])
    if p.returncode != 0:
        arts = sorted(os.listdir(art))
        wit = open(os.path.join(art, arts[0]), "rb").read() if arts else b""
        part["viol"].append(("fuzz/%s" % driver.crash_signature(err, p.returncode), {"input": core.b2s(wit)[:300], "hex": wit.hex()[:2000]},
                             {"stderr": err[-2500:]}))
    part["distinct"] = part["counters"]["fuzz.executions"]
    return part


def build_fuzzer(cx):
    vdir = os.path.join(cx.dir, "fuzz")
    objs, flags = build.build_objects(vdir, san="fuzz", cc="clang")
    exe = os.path.join(vdir, "fuzz.bin")
    cmd = ["clang", "-O1", "-g", "-fsanitize=fuzzer,address,undefined", "-fno-sanitize-recover=all", "-I" + os.path.join(build.REPO, "include"),
           "-I" + build.REPO, os.path.join(core.VERIF, "drv", "fuzz.c"), "-o", exe] + objs + ["-lidn2"]
    rc, out = build.run(cmd)
    if rc != 0:
        raise build.BuildError("fuzz link failed\n" + out)
    return exe


def main(tier, seed):
    rep = core.Report(PROP, tier, seed)
    cx = _ctx.Ctx(PROP)
    mdl = _model.Model()
    rng = random.Random(seed)
    asan = cx.exe("asan")
    asanx = cx.exe("asan-extra", defs=["EAV_EXTRA"])
    mem2 = cx.exe("plain-O2-mem", driver=("drv/mem.c",), san="plain-O2")
    mem0 = cx.exe("plain-O0-mem", driver=("drv/mem.c",), san="plain-O0")
    plain0 = cx.exe("plain-O0", san="plain-O0")
    hist = cx.exe("asan-hist", driver=("drv/hist.c",))
    histx = cx.exe("asan-hist-extra", driver=("drv/hist.c",), defs=["EAV_EXTRA"])
    cost = cx.exe("plain-O2-cost", driver=("drv/cost.c",), san="plain-O2")
    corpus = AG.address_corpus(tier, seed, mdl)
    struct = structural_cases(tier, rng)
    longs = long_cases(tier, rng)
    jobs = []
    from .. import domgen as DG
    lits = [b"x@" + d for d in DG.literal_domains(tier, rng)]
    if tier == "quick":
        lits = lits[seed % 3::3]
    allc = sorted(set(corpus) | set(struct) | set(lits))
    for name, exe in (("asan", asan), ("asan-extra", asanx)):
        sel = allc if name == "asan" else allc[seed % 3::3]
        for i in range(0, len(sel), 3000):
            jobs.append((w_asan, (exe, sel[i:i + 3000], name, "corpus+structural")))
        for i in range(0, len(longs), 40):
            jobs.append((w_asan, (exe, longs[i:i + 40], name, "long")))
    # hostile placement
    sel = (struct + corpus)[seed % 2::2] if tier == "quick" else struct + corpus
    sel = sel + [l for l in longs if len(l) <= 70000][::3]
    for name, exe in (("plain-O2", mem2), ("plain-O0", mem0)):
        s2 = sel if name == "plain-O2" else sel[::4]
        for i in range(0, len(s2), 2500):
            jobs.append((w_mem, (exe, s2[i:i + 2500], name)))
    # memcheck + poison differential
    mc = [a for a in corpus if len(a) < 300]
    rng.shuffle(mc)
    mc = AG.LOCAL_CORE[:0] + [l + b"@" + d for l in AG.LOCAL_CORE[:12] for d in AG.DOMAIN_CORE[::9]] + mc[:250 if tier == "quick" else 3000]
    for i in range(0, len(mc), 120):
        jobs.append((w_memcheck, (plain0, mc[i:i + 120])))
    plain0x = cx.exe("plain-O0-extra", san="plain-O0", defs=["EAV_EXTRA"])
    jobs.append((w_memcheck, (plain0x, mc[:120])))
    jobs.append((w_poison, (asan, mc)))
    # allocation ledger
    pool = [a for a in corpus if len(a) < 300][seed % 11::11][:400]
    jobs.append((w_ledger, (hist, pool, False)))
    jobs.append((w_ledger, (histx, pool, True)))
    jobs.append((w_size_ladder, (hist, False)))
    jobs.append((w_size_ladder, (histx, True)))
    # cost clock
    sizes = [4096, 8192, 16384, 32768] if tier == "quick" else [4096, 8192, 16384, 32768, 65536, 131072]
    for e in (ENTRIES_Q if tier == "quick" else ENTRIES_T):
        for f in FAMILIES:
            jobs.append((w_cost, (cost, e, f, sizes, cx.dir)))
    if tier != "quick":
        fz = build_fuzzer(cx)
        cdir = os.path.join(cx.dir, "seedcorpus")
        os.makedirs(cdir)
        # seeds of at most 64 KiB: libFuzzer keeps every seed (and its mutation buffers) in memory, multi-MiB seeds trip its RSS limit
        # without the library having allocated anything (seen once: thorough seed 2, "out-of-memory" with 24 MB live heap; DESIGN section 11)
        for i, a in enumerate([x for x in corpus if len(x) <= 65536][::5][:3000]):
            with open(os.path.join(cdir, "c%05d" % i), "wb") as f:
                f.write(bytes([i & 31]) + a)
        for j in range(12):
            jobs.append((w_fuzz, (fz, 400000, seed * 100 + j, cdir, cx.dir)))
    maxima = ("asan.max_input_len", "ledger.mallocs", "ledger.frees", "fuzz.edges_covered")
    for part in core.pmap(_run, jobs):
        mx = {k: part["counters"].pop(k) for k in list(part["counters"]) if k in maxima}
        rep.merge(part)
        for k, v in mx.items():
            rep.counters[k] = max(rep.counters[k], v)
    c = rep.counters
    for need in ("asan.calls", "placement.cases", "memcheck.records", "poison.compared", "cost.runs", "is_email"):
        rep.require(not (not c[need]), "instrument produced no observation: " + need)
    ev = c["asan.calls"] + c["placement.calls"] + c["memcheck.records"] + c["poison.compared"] * 4 + c["is_email"] + c["cost.runs"] + c["fuzz.executions"]
    rep.assumptions += ["a clean sanitizer run is evidence on the paths reached, not a proof of memory safety (intra-object overflows, "
                        "reads inside libidn2 are not seen)", "allocation-failure paths are excluded by the statement",
                        "cost clock = callgrind instruction count of one call; super-linear = an increment more than 2.5x the previous one at doubled size"]
    return rep.finish(ev, rep.distinct_count,
                      "every public entry point on: the C01 address corpus, every byte value at every position of 12 structural bases and "
                      "around '@[].\"', 20 repeated-unit families and random bytes up to %d bytes; ASan+UBSan+LSan (2 builds), guard-page/"
                      "read-only placement (-O2, -O0), memcheck with uninitialised eav_t, 4-way poison differential, allocation ledger "
                      "histories, callgrind cost clock on %d families x %d entry points x sizes %s%s; evaluations = driver operations answered (records, "
                      "placements, validations, cost runs, fuzz executions - each operation makes 1-50 library calls); distinct = "
                      "distinct inputs per instrument" % (max(len(l) for l in longs), len(FAMILIES), len(ENTRIES_Q if tier == "quick" else ENTRIES_T),
                                                        sizes, "" if tier == "quick" else ", libFuzzer 12 x 400k runs"),
                      {"builds": cx.builds_info()})


def _run(fn, args):
    return fn(*args)
