"""C01 - address decision: split at the last '@', local part 1-64 octets, both halves valid.

eav_is_email (4 modes x tld off/on, allow_tld = every class) and is_<rfc>_email on whole addresses; the decision and error
code must equal the composition (R-COMPOSE) of the library's own per-part validators applied by the driver to the halves
split at the last '@'; the mode set before eav_setup is the one applied, a later unconfirmed rfc assignment is not."""
from .. import core
from . import addr_common

PROP = "C01"


def main(tier, seed):
    rep, cx, n = addr_common.run(
        PROP, tier, seed, sections=1 | 2 | 4 | 8 | 16 | 32, variants=[("asan", {}, False)],
        rule="", assumptions=["validity of each half is defined by the library's own public per-part validators (their "
                              "correctness is C02-C05's job)",
                              "bracketed domains shorter than 9 bytes are not judged (length pre-check vs untagged IPv6)"])
    c = rep.counters
    ev = c["hl.accept"] + c["hl.reject"]
    return rep.finish(ev, rep.distinct_count,
                      "cross product of a local-part pool and a domain pool (host names of every TLD class, IDN, literals, junk), "
                      "0-3 '@' at every position, local-part length 60-69 in 4 shapes, repository corpus + mutations, random "
                      "bytes; every address in 4 modes x tld off/on, high- and low-level API, plus 12 'rfc changed after setup' "
                      "probes and 16 'setup m1 then setup m2' probes per address; distinct = distinct addresses",
                      {"builds": cx.builds_info()})
