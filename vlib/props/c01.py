"""C01 - address decision: split at the last '@', local part 1-64 octets, both halves valid.

eav_is_email (4 modes x tld off/on, allow_tld = every class) and is_<rfc>_email on whole addresses; the decision and error
code must equal the composition (R-COMPOSE) of the library's own per-part validators applied by the driver to the halves
split at the last '@'; the mode set before eav_setup is the one applied, a later unconfirmed rfc assignment is not."""
from .. import core
from . import addr_common

PROP = "C01"


def extra_jobs(tier, seed):
    def f(cx, exe, opts, extra, name):
        """Every IDN conversion forced to fail (link-time wrap): the high-level decision must still equal the composition of the
        per-part validators (which now report the IDN error) - no silent fall-back to ASCII rules in the e-mail level glue."""
        from .. import addrgen as AG, model as _model, build
        wexe = cx.exe("asan-wrapall", ldflags=("-Wl,--wrap=idn2_to_ascii_8z",), driver_defs=("VERIF_WRAP_IDN2",))
        mdl = _model.Model()
        addrs = AG.address_corpus("quick", seed, mdl)[seed % 5::5]
        jobs = []
        jobs.append((w_aligned, (exe, addrs[1::2][:4000])))
        for a in (b"user@example.org", "\u0438\u0432\u0430\u043d@\u043f\u043e\u0447\u0442\u0430.\u0440\u0444".encode(), b'"a\tb"@x.zzzz', b"a..b@c.com", b"u@[IPv6:::1]", b"u@xn--a-.example.org"):
            jobs.append((w_repeat, (exe, a, 66000 if tier == "quick" else 200000)))
        for code, buf in ((-100, 0), (-100, 1), (-205, 0), (-304, 1), (-209, 0)):
            sel = addrs[(abs(code) + buf) % 3::3]
            jobs.append((w_forced, (wexe, sel, opts, code, buf)))
        return jobs
    return f


def w_repeat(exe, addr, count):
    """One object per mode, rfc changed after the set-up and never confirmed, the same address validated `count` times: the mode that
    was confirmed keeps deciding (first outcome = every outcome)."""
    from .. import driver
    import collections
    part = {"counters": collections.Counter(), "viol": [], "samples": [], "distinct": 0, "sets": {}}
    try:
        rec = driver.run_lines(exe, ["R %d %s" % (count, driver.hx(addr))])[0]
    except driver.DriverCrash as c:
        part["viol"].append(("repeat/crash/%s" % c.signature(), {"address": core.b2s(addr)}, {"stderr": c.stderr[-1500:]}))
        return {PROP: part}
    for m, v in rec.items():
        if v is None:
            continue
        part["counters"]["repeat.validations"] += count
        if v[0]:
            part["viol"].append(("repeat/outcome-changes-after-n-validations/%s" % driver.MODES[int(m)], {"address": core.b2s(addr), "mode": driver.MODES[int(m)]},
                                 {"deviating_calls": v[0], "first_at_call": v[1], "first_outcome": v[2:4], "deviating_outcome": v[4:6]}))
    part["distinct"] = 1
    return {PROP: part}


def w_aligned(exe, addrs):
    """Same addresses, once in allocator-aligned blocks and once at 16 different offsets from that alignment: identical records."""
    from .. import driver, build
    import collections
    part = {"counters": collections.Counter(), "viol": [], "samples": [], "distinct": 0, "sets": {}}
    lines = [driver.A_line(a, sections=1 | 2 | 4) for a in addrs]
    a0, c0 = driver.run_lines_resilient(exe, lines)
    a1, c1 = driver.run_lines_resilient(exe, lines, env=build.san_env({"VERIF_ALIGN": "1"}))
    for idx, sig, err in c1:
        part["viol"].append(("alignment/crash/%s" % sig, {"address": core.b2s(addrs[idx]) if idx >= 0 else ""}, {"stderr": err[-1500:]}))
    for a, x, y in zip(addrs, a0, a1):
        if x is None or y is None:
            continue
        part["counters"]["alignment.compared"] += 1
        if x != y:
            part["viol"].append(("alignment/outcome-depends-on-position-in-memory", {"address": core.b2s(a), "hex": a.hex()}, {"aligned": str(x)[:300], "offset": str(y)[:300]}))
    part["distinct"] = len(addrs)
    return {PROP: part}


def w_forced(wexe, addrs, opts, code, buf):
    from .. import addrgen as AG, model as _model, monitors, driver, build
    import collections
    mdl = _model.Model()
    cfg = monitors.Cfg(mdl, opts, False, {}, None)
    part = {"counters": collections.Counter(), "viol": [], "samples": [], "distinct": 0, "sets": {}}
    env = build.san_env({"VERIF_IDN_FAIL": str(code), "VERIF_IDN_FAIL_BUF": str(buf)})
    lines = [driver.A_line(a, sections=1 | 2 | 4 | 8, allow=cfg.allow_on) for a in addrs]
    recs, crashes = driver.run_lines_resilient(wexe, lines, env=env)
    for idx, sig, err in crashes:
        a = addrs[idx] if idx >= 0 else b""
        part["viol"].append(("forced-idn-failure/crash/%s" % sig, {"address": core.b2s(a), "idn_code": code, "buffer": buf}, {"stderr": err[-1500:]}))
    for a, rec in zip(addrs, recs):
        if rec is None:
            continue
        out = []
        monitors.mon_c01(cfg, a, rec, out, part["counters"])
        for key, wit, det in out:
            part["viol"].append(("forced-idn-failure/" + key, dict(wit, idn_code=code, buffer=buf), det))
    part["counters"]["forced-idn.addresses"] += len(addrs)
    part["distinct"] = len(addrs)
    return {PROP: part}


def main(tier, seed):
    rep, cx, n = addr_common.run(
        PROP, tier, seed, sections=1 | 2 | 4 | 8 | 16 | 32, variants=[("asan", {}, False)], extra_jobs=extra_jobs(tier, seed),
        rule="", assumptions=["validity of each half is defined by the library's own public per-part validators (their "
                              "correctness is C02-C05's job)",
                              "bracketed domains shorter than 9 bytes are not judged (length pre-check vs untagged IPv6)"])
    c = rep.counters
    ev = c["hl.accept"] + c["hl.reject"]
    return rep.finish(ev, rep.distinct_count,
                      "cross product of a local-part pool and a domain pool (host names of every TLD class, IDN, literals, junk), "
                      "0-3 '@' at every position, local-part length 60-69 in 4 shapes, repository corpus + mutations, random "
                      "bytes; every address in 4 modes x tld off/on, high- and low-level API, plus 12 'rfc changed after setup' "
                      "probes and 16 'setup m1 then setup m2' probes per address; addresses with a 2^31-byte local part (-O2 build); distinct = distinct addresses",
                      {"builds": cx.builds_info()})
