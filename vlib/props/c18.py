"""C18 - the IDN back end (libidn2 / libidn / idnkit source sets) changes no decision and leaks no resource.

The three partial/<backend> source sets are compiled (ASan+UBSan) against adapters that map their IDN API onto the same libidn2
converter (shim/idn), so conversions are equivalent by construction; the same workloads are run through the three builds and
the observation records compared; the idnkit adapter keeps a create/destroy ledger that is checked after every call history."""
import collections, os, random
from .. import core, build, ctx as _ctx, histmon as HM, model as _model, driver, addrgen as AG
from . import c08, c13

PROP = "C18"
SHIM = os.path.join(core.VERIF, "shim", "idn")
BACKENDS = ["idn2", "idn", "idnkit"]


def w_errno(wexes, exes, addrs):
    """Records with a converter that leaves errno = ENOENT behind must equal the records of the ordinary build, per back end."""
    part = {"counters": collections.Counter(), "viol": [], "samples": [], "distinct": 0, "sets": {}}
    lines = [driver.A_line(a, sections=1, modes=8 | 1, tlds=3) for a in addrs]
    for b in wexes:
        env = build.san_env({"VERIF_IDN_ERRNO": "1"})
        r1, c1 = driver.run_lines_resilient(wexes[b], lines, env=env)
        r0, c0 = driver.run_lines_resilient(exes[b], lines, env=build.san_env())
        for idx, sig, err in c1:
            part["viol"].append(("errno-left-by-converter/%s/crash/%s" % (b, sig), {"address": core.b2s(addrs[idx]) if idx >= 0 else ""}, {"stderr": err[-1200:]}))
        for a, x, y in zip(addrs, r1, r0):
            if x is None or y is None:
                continue
            part["counters"]["errno.compared"] += 1
            if x["hl"] != y["hl"]:
                k = next(k for k in x["hl"] if x["hl"][k] != y["hl"].get(k))
                part["viol"].append(("errno-left-by-converter/%s/record-differs" % b, {"address": core.b2s(a), "backend": b, "mode_tld": k},
                                     {"with_errno_left_behind": x["hl"][k], "ordinary": y["hl"].get(k)}))
    part["distinct"] = len(addrs)
    return part


def w_records(exes, addrs, allow):
    """Run the same addresses through the three builds (high-level API, 4 modes x tld off/on) and compare."""
    part = HM.new_part()
    lines = [driver.A_line(a, sections=1, allow=allow) for a in addrs]
    res = {}
    for b in BACKENDS:
        recs, crashes = driver.run_lines_resilient(exes[b], lines)
        for idx, sig, err in crashes:
            part["viol"].append(("crash/%s/%s" % (b, sig), {"address": core.b2s(addrs[idx]) if idx >= 0 else ""}, {"stderr": err[-1200:]}))
        res[b] = recs
    for i, a in enumerate(addrs):
        base = res["idn2"][i]
        if base is None:
            continue
        part["counters"]["addresses.compared"] += 1
        for b in ("idn", "idnkit"):
            r = res[b][i]
            if r is None:
                continue
            if r != base:
                for k in base["hl"]:
                    if base["hl"][k] != r["hl"].get(k):
                        m, t = divmod(int(k), 2)
                        x, y = base["hl"][k], r["hl"].get(k)
                        fields = ["ret", "errcode", "message", "is_ipv4", "is_ipv6", "is_domain", "rc", "idn_rc", "lpart", "domain"]
                        diff = [fields[j] for j in range(min(len(x), len(y or []), len(fields))) if x[j] != y[j]] or ["shape"]
                        part["viol"].append(("record-differs/%s/%s/%s" % (b, driver.MODES[m], "+".join(diff)),
                                             {"address": core.b2s(a), "backend": b, "mode": driver.MODES[m], "tld_check": t},
                                             {"idn2": x, b: y}))
                        break
    part["distinct"] = len(set(addrs))
    if addrs:
        part["samples"].append({"source": "records", "address": core.b2s(addrs[len(addrs) // 2][:100])})
    return part


def w_policy(pexes, rc):
    part = HM.new_part()
    rows = {}
    for b in BACKENDS:
        try:
            rows[b] = c08.run_policy(pexes[b], "C %d" % rc)
        except driver.DriverCrash as c:
            part["viol"].append(("policy/crash/%s/%s" % (b, c.signature()), {"rc": rc}, {"stderr": c.stderr[-1200:]}))
    for b in ("idn", "idnkit"):
        if b in rows and "idn2" in rows:
            part["counters"]["policy.rows"] += len(rows[b])
            if rows[b] != rows["idn2"]:
                part["viol"].append(("policy-differs/%s/rc=%d" % (b, rc), {"rc": rc, "backend": b}, None))
    part["distinct"] = 8 * 2048
    return part


def w_hist(hexes, pool, programs, src):
    part = HM.new_part()
    mdl = _model.Model()
    traces = {}
    backends = [b for b in BACKENDS if b in hexes]
    for b in backends:
        tr, crashes = HM.run_histories(hexes[b], pool, programs)
        for idx, sig, err in crashes:
            p = programs[idx] if 0 <= idx < len(programs) else []
            part["viol"].append(("crash/%s/%s" % (b, sig), {"history": " ".join(p)}, {"stderr": err[-1200:]}))
        traces[b] = tr
    prev = {b: (0, 0) for b in BACKENDS}
    for i, prog in enumerate(programs):
        for b in backends:
            tr = traces[b][i]
            if tr is None:
                continue
            sub = HM.new_part()
            end = HM.check_trace(prog, tr, mdl, sub, src=src + "/" + b)
            for v in sub["viol"]:
                part["viol"].append((b + "/" + v[0],) + tuple(v[1:]))
            for k2, v2 in sub["counters"].items():
                if k2.startswith("setup.create") or k2.startswith("failed-setup"):
                    part["counters"]["%s.%s" % (b, k2)] += v2
            part["counters"]["histories.%s" % b] += 1
            if b == "idnkit":
                creates, destroys, live, bad, dbl, enc = end[5:11]
                part["counters"]["ctx.creates"] = max(part["counters"]["ctx.creates"], creates)
                part["counters"]["ctx.destroys"] = max(part["counters"]["ctx.destroys"], destroys)
                part["counters"]["ctx.encodes"] = max(part["counters"]["ctx.encodes"], enc)
                w = {"history": " ".join(prog)}
                if live != 0:
                    part["viol"].append(("idnkit/context-leak", w, {"live": live, "creates": creates, "destroys": destroys}))
                if bad >= 1000000:
                    part["viol"].append(("idnkit/encode-with-undefined-actions", w, {"count": bad // 1000000}))
                if bad % 1000000:
                    part["viol"].append(("idnkit/context-used-after-destroy", w, {"count": bad % 1000000}))
                if dbl:
                    part["viol"].append(("idnkit/context-destroyed-twice", w, {"count": dbl}))
        # decisions along the history must agree between the back ends
        t0 = traces["idn2"][i] if "idn2" in traces else None
        for b in ("idn", "idnkit"):
            t1 = traces[b][i] if b in traces else None
            if t0 is None or t1 is None:
                continue
            def view(tr):
                out = []
                for st in tr[:-1]:
                    if st[0] == "e":
                        out.append(["e", st[2]])
                    elif st[0] == "s":
                        out.append(["s", st[2], st[3]])          # return value and eav_errstr after the setup
                    elif st[0] == "m":
                        out.append(["m", st[1], st[2]])
                return out
            a, c = view(t0), view(t1)
            if a != c:
                k = next((i for i in range(min(len(a), len(c))) if a[i] != c[i]), 0)
                part["viol"].append(("history-differs/%s/%s-step" % (b, (a[k][0] if k < len(a) else "?")), {"history": " ".join(prog)},
                                     {"idn2": a[k:k + 2], b: c[k:k + 2]}))
    part["distinct"] = len(programs)
    if programs:
        part["samples"].append({"source": src, "history": " ".join(programs[len(programs) // 2][:30])})
    return part


def _memcheck_backend(b, exe, pool, programs):
    part = c13.w_memcheck_hist(exe, pool, programs)
    part["viol"] = [("%s/%s" % (b, v[0]),) + tuple(v[1:]) for v in part["viol"]]
    part["counters"] = {("%s.%s" % (b, k)): v for k, v in part["counters"].items()}
    return part


def main(tier, seed):
    rep = core.Report(PROP, tier, seed)
    cx = _ctx.Ctx(PROP)
    mdl = _model.Model()
    rng = random.Random(seed)
    adapter = [os.path.join(SHIM, "adapter.c")]
    exes, pexes, hexes = {}, {}, {}
    for b in BACKENDS:
        kw = dict(backend=b)
        if b != "idn2":
            kw.update(extra_inc=(SHIM,), extra_objs_srcs=adapter)
        exes[b] = cx.exe("asan-%s" % b, **kw)
        pexes[b] = cx.exe("asan-policy-%s" % b, driver=("drv/policy.c",), **kw)
        hk = dict(kw)
        if b == "idnkit":
            hk["driver_defs"] = ("VERIF_IDN_ADAPTER",)
        hexes[b] = cx.exe("asan-hist-%s" % b, driver=("drv/hist.c",), **hk)
    xexes = {}
    for b in BACKENDS:
        kw = dict(backend=b, defs=["EAV_EXTRA"])
        if b != "idn2":
            kw.update(extra_inc=(SHIM,), extra_objs_srcs=adapter)
        xexes[b] = cx.exe("asan-extra-%s" % b, **kw)
    addrs = AG.address_corpus(tier, seed, mdl)
    jobs = []
    sel = addrs[seed % 4::4]
    for i in range(0, len(sel), 1500):
        jobs.append((w_records, (xexes, sel[i:i + 1500], mdl.all_bits)))
    for allow in (mdl.default_allow, mdl.all_bits):
        sel = addrs if allow == mdl.default_allow else addrs[::3]
        for i in range(0, len(sel), 1500):
            jobs.append((w_records, (exes, sel[i:i + 1500], allow)))
    # the domain corpora of C07, C09 and C10 (table rows in case forms, reserved names, U-/A-label pairs of every script incl. joiners in
    # valid context, mapped spellings, invalid U-labels) behind a fixed local part
    from .. import tldgen as TG
    rg = random.Random(seed * 31 + 5)
    q = tier == "quick"
    dsel = [u for u, a in TG.idn_domains(tier, rg, mdl)[:: (4 if q else 1)]] + [a for u, a in TG.idn_domains(tier, rg, mdl)[:: (16 if q else 4)]]
    dsel += TG.tld_domains(tier, rg, mdl)[:: (8 if q else 2)] + TG.special_domains(tier, rg)[:: (20 if q else 4)]
    dsel += [u for u, a in TG.invalid_idn_pairs(tier, rg)] + [a for u, a in TG.invalid_idn_pairs(tier, rg)]
    dv = sorted({b"user@" + d for d in dsel if d and b"\x00" not in d})
    for i in range(0, len(dv), 1500):
        jobs.append((w_records, (exes, dv[i:i + 1500], mdl.default_allow)))
    # the converter leaves a non-zero errno behind although it succeeded / the application enters with a stale errno: the IDN return
    # code alone decides and names the message (link-time wrap of the converter, all three source sets go through it)
    wexes = {}
    for b in BACKENDS:
        kw = dict(backend=b, ldflags=("-Wl,--wrap=idn2_to_ascii_8z",), driver_defs=("VERIF_WRAP_IDN2",))
        if b != "idn2":
            kw.update(extra_inc=(SHIM,), extra_objs_srcs=adapter)
        wexes[b] = cx.exe("asan-wrap-%s" % b, **kw)
    esel = dv[:: (3 if q else 1)] + addrs[seed % 7::7]
    for i in range(0, len(esel), 1500):
        jobs.append((w_errno, (wexes, exes, esel[i:i + 1500])))
    codes = [0] + [mdl.class_number(c) for c in _model.CLASSES] + [-v for v in sorted(mdl.eeav.values()) if v > 0]
    for rc in codes:
        jobs.append((w_policy, (pexes, rc)))
    progs = list(c13.exhaustive(mdl, HM.POOL7, 4 if tier == "quick" else 5))
    if tier == "quick":
        progs = progs[seed % 2::2]
    for i in range(0, len(progs), 3000):
        jobs.append((w_hist, (hexes, HM.POOL7, progs[i:i + 3000], "exhaustive")))
    # idnkit: the k-th context creation fails (C<k>) somewhere in a history that keeps switching modes
    cf = []
    rr = random.Random(seed * 7 + 1)
    base_ops = ["r0", "r1", "r3", "r3", "s", "s", "e0", "e2", "t0", "m", "f", "r99"]
    for k in (1, 2, 3):
        for _ in range(150 if tier == "quick" else 1500):
            p = ["C%d" % k] + [rr.choice(base_ops) for _ in range(rr.choice([4, 8, 16]))]
            cf.append(p)
        cf += [["C%d" % k, "r3", "s", "r0", "s", "r3", "s", "e0"], ["C%d" % k, "r3", "s", "f", "r3", "s", "e0", "f"],
               ["r3", "s", "e0", "C%d" % k, "r0", "s", "r3", "s", "r1", "s", "r3", "s", "e2"]]
    jobs.append((w_hist, ({"idnkit": hexes["idnkit"]}, HM.POOL7, cf, "create-failure")))
    for j in range(8 if tier == "quick" else 64):
        r = random.Random(seed * 977 + j)
        ops = HM.alphabet(mdl, len(HM.POOL7))
        ps = []
        for _ in range(60 if tier == "quick" else 300):
            p = ["r%d" % r.randrange(4), "s"] + [r.choice(ops) for _ in range(r.choice([5, 20, 60, 200]))]
            ps.append(p)
        jobs.append((w_hist, (hexes, HM.POOL7, ps, "random")))
    # one object, 66 000 validations in mode 6531 (a call counter that wraps, a context re-created now and then): contexts created and
    # destroyed must balance at the end, outcomes must stay those of a fresh object
    lp = ["r3", "s"]
    for i in range(66000 if tier == "quick" else 140000):
        lp.append("e%d" % (i % len(HM.POOL7)))
    jobs.append((w_hist, ({"idnkit": hexes["idnkit"]}, HM.POOL7, [lp], "long-run")))
    jobs.append((w_hist, ({"idn": hexes["idn"]}, HM.POOL7, [lp], "long-run")))
    # definedness (memcheck) for the foreign back ends on an uninstrumented build: eav_t lives in uninitialised heap memory
    r2 = random.Random(seed * 53)
    ops = HM.alphabet(mdl, len(HM.POOL7))
    mprogs = [["r%d" % r2.randrange(4), "s"] + [r2.choice(ops) for _ in range(r2.choice([6, 15, 40]))] for _ in range(60 if tier == "quick" else 600)]
    for b in ("idn", "idnkit"):
        kw = dict(backend=b, extra_inc=(SHIM,), extra_objs_srcs=adapter, san="plain-O0")
        if b == "idnkit":
            kw["driver_defs"] = ("VERIF_IDN_ADAPTER",)
        pexe = cx.exe("plain-O0-hist-%s" % b, driver=("drv/hist.c",), **kw)
        for i in range(0, len(mprogs), 60):
            jobs.append((_memcheck_backend, (b, pexe, HM.POOL7, mprogs[i:i + 60])))
    for part in core.pmap(_run, jobs):
        # ctx.* counters are maxima, not sums
        mx = {k: part["counters"].pop(k) for k in list(part["counters"]) if k.startswith("ctx.")}
        rep.merge(part)
        for k, v in mx.items():
            rep.counters[k] = max(rep.counters[k], v)
    c = rep.counters
    rep.require(not (not c["histories.idnkit"] or not c["addresses.compared"] or c["ctx.creates"] == 0), "a back end produced no observations")
    rep.assumptions += ["real libidn / idnkit are absent: their source sets run against adapters onto libidn2 ('given equivalent "
                        "IDN conversions')", "legal histories: eav_free is followed by eav_init before reuse"]
    return rep.finish(c["addresses.compared"] * 3 + c["policy.rows"] * 2048 + sum(c["histories.%s" % b] for b in BACKENDS),
                      rep.distinct_count,
                      "C01 address corpus (4 modes x tld off/on, two allow_tld masks), the C07 / C09 / C10 domain corpora and the complete C08 callback enumeration through "
                      "the three back-end builds, records compared; C13 histories (exhaustive to length %d + random to 200) through the "
                      "three builds with the idnkit context ledger; distinct = addresses + policy tuples + histories" % (4 if tier == "quick" else 5),
                      {"backends": BACKENDS, "builds": cx.builds_info()})


def _run(fn, args):
    return fn(*args)
