"""C04 - host-name domains: LDH labels, 63/253 limits, not all-numeric, one optional root dot.

is_ascii_domain (exact, R-HOST), is_utf8_domain and the high-level call in all modes (mode 6531 one-directional on the
A-label form produced by the driver's own idn2 call), default build and a LABELS_ALLOW_UNDERSCORE build."""
import itertools, random
from .. import core, ctx as _ctx, domgen as DG, gen

PROP = "C04"


def main(tier, seed, prop=PROP):
    rep = core.Report(prop, tier, seed)
    cx = _ctx.Ctx(prop)
    stock = cx.builds_info()["stock_option_macros"]
    variants = [("asan", cx.exe("asan"), "LABELS_ALLOW_UNDERSCORE" in stock)]
    if "LABELS_ALLOW_UNDERSCORE" not in stock:
        variants.append(("asan-underscore", cx.exe("asan-underscore", defs=["LABELS_ALLOW_UNDERSCORE"]), True))
    rng = random.Random(seed)
    k = 7 if tier == "quick" else 9
    pre = 2 if tier == "quick" else 3
    pool_len = DG.host_pool_len()
    pool_bytes = DG.host_pool_bytes()
    corp = gen.corpus_domains()
    muts = set(corp)
    for d in corp:
        for _ in range(15 if tier == "quick" else 150):
            m = gen.mutate(d, rng, rng.randrange(1, 3))
            if m and b"\x00" not in m:
                muts.add(m)
    # random long domains: valid skeleton + noise
    rnd = set()
    for i in range(300 if tier == "quick" else 5000):
        labs = []
        for _ in range(rng.randrange(1, 8)):
            n = rng.choice([1, 2, 3, 10, 62, 63, 64, 30])
            labs.append(bytes(rng.choice(b"abcxyz0123456789-_") for _ in range(n)))
        d = b".".join(labs) + rng.choice([b"", b"", b".", b".."])
        rnd.add(d)
        rnd.add(gen.mutate(d, rng, 1))
    rnd = sorted(x for x in rnd if x and b"\x00" not in x)
    jobs = []
    for name, exe, us in variants:
        jobs.append((DG.w_host_enum, (exe, DG.HOST_TOKENS, pre - 1, (), us)))
        for p in itertools.product(range(len(DG.HOST_TOKENS)), repeat=pre):
            jobs.append((DG.w_host_enum, (exe, DG.HOST_TOKENS, k - pre, p, us)))
        kf = 3 if tier == "quick" else 4
        for t0 in range(len(DG.FULL_LDH_TOKENS)):
            jobs.append((DG.w_host_enum, (exe, DG.FULL_LDH_TOKENS, kf, (t0,), us)))
        for src, pool in (("lengths", pool_len), ("bytes", pool_bytes), ("corpus", sorted(muts)), ("random", rnd),
                          ("numeric-looking", DG.numeric_looking_hosts())):
            for i in range(0, len(pool), 1500):
                jobs.append((DG.w_host_list, (exe, pool[i:i + 1500], us, src, True)))
    jobs[0:0] = DG.huge_jobs(cx.exe("plain-O2", san="plain-O2"), DG.huge_host_cases(tier))
    for part in core.pmap(_run, jobs):
        rep.merge(part)
    rep.require(rep.counters.get("huge.strings", 0) > 0, "no 2 GiB input could be allocated")
    c = rep.counters
    evaluations = sum(v for kk, v in c.items() if kk.endswith(".accept") or kk.endswith(".reject"))
    rep.assumptions += ["the A-label form judged in mode 6531 is what libidn2 (same library, called directly by the driver) returns",
                        "ASCII-only inputs are changed by IDNA2008 conversion at most by case mapping"]
    return rep.finish(evaluations, rep.distinct_count,
                      "all strings up to length %d over {letter,digit,'-','.','_',other} (exhaustive), label length 0-70 x "
                      "position, total length 236-261 with 0-3 trailing dots, every byte 1..255 at 12 positions, corpus "
                      "mutations, random label mixes; in the default and the LABELS_ALLOW_UNDERSCORE build; distinct strings "
                      "per shard; names of 2^31 and 2^32+3 bytes (thorough: more shapes, one through the IDN library) in an -O2 build" % k,
                      {"enumeration_bound": k, "variants": [v[0] for v in variants], "builds": cx.builds_info()})


def _run(fn, args):
    return fn(*args)
