"""TLD / reserved-domain / IDN workloads and workers (C07, C09, C10)."""
import collections, itertools, random, string
from . import gen, driver, core, model as _model, oracle_domain as OD
from .driver import MODES

LDH = b"abcdefghijklmnopqrstuvwxyz0123456789-"


def new_part():
    return {"counters": collections.Counter(), "viol": [], "samples": [], "distinct": 0, "sets": {}}


def randcase(b, rng):
    return bytes((c - 32 if 0x61 <= c <= 0x7a and rng.random() < 0.5 else c) for c in b)


def punydecode(alabel):
    """xn--... -> U-label (str) or None."""
    try:
        return alabel[4:].decode("ascii").encode("ascii").decode("punycode")
    except Exception:
        return None


def mapped_spellings(d, rng, k=4):
    """U spellings that UTS#46 maps onto the ASCII domain d: fullwidth letters/digits/hyphen, the IDNA full stops, inserted
    soft hyphens / zero-width spaces, upper case.  (Judged only when this libidn2 really converts them to d.)"""
    def fw(c):
        if 0x21 <= c <= 0x7e and c != 0x2e:
            return chr(c + 0xfee0)
        return chr(c)
    s = d.decode("ascii")
    out = set()
    out.add("".join(fw(ord(c)) for c in s))                                   # everything fullwidth (dots stay ASCII)
    out.add("".join(fw(ord(c)) if c != "." else "。" for c in s))              # + ideographic full stop
    out.add(s.replace(".", "．"))
    out.add(s.replace(".", "｡"))
    for _ in range(k):
        t = "".join(fw(ord(c)) if rng.random() < 0.4 and c != "." else (c.upper() if rng.random() < 0.3 else c) for c in s)
        if rng.random() < 0.5:
            i = rng.randrange(len(t) + 1)
            t = t[:i] + rng.choice(["\u00ad", "\u200b"]) + t[i:]
        t = "".join(rng.choice(["。", "．", "."]) if c == "." else c for c in t)
        out.add(t)
    out.discard(s)
    return sorted(x.encode("utf-8") for x in out)


def tld_domains(tier, rng, mdl):
    """G-TLD: every table row x case forms x 1-4 preceding labels; near misses of every row; random unlisted labels."""
    out = []
    names = [n for n, _, _ in mdl.rows]
    pre = [b"a", b"mail.b1", b"x.y.zq", b"a.bb.ccc.dddd"]
    for n in names:
        forms = {n, n.upper(), randcase(n, rng), randcase(n, rng), randcase(n, rng)}
        for f in forms:
            for p in (pre if tier != "quick" else [pre[0], rng.choice(pre[1:])]):
                out.append(p + b"." + f)
    near = set()
    known = set(names)
    for i, n in enumerate(names):
        for j in range(1, len(n)):
            near.add(n[:j])                         # every proper prefix
            if tier != "quick":
                near.add(n[j:])                     # every proper suffix
        near.add(n[1:])
        for c in (LDH[:36] if tier != "quick" else rng.sample(list(LDH[:36]), 6)):
            c = bytes([c]) if isinstance(c, int) else c
            near.add(n + c)                         # one-character extension
            near.add(c + n)
        for pos in sorted({0, len(n) // 2, len(n) - 1}):
            for c in rng.sample(list(LDH[:36]), 3):
                near.add(n[:pos] + bytes([c]) + n[pos + 1:])
        if i + 1 < len(names):
            nb = names[i + 1]
            near.add(n + nb)
            near.add(n[:len(n) // 2] + nb[len(nb) // 2:])
    near = {x for x in near if x and x[0:1] != b"-" and x[-1:] != b"-" and len(x) <= 63}
    for x in sorted(near):
        out.append(b"a." + x)
    for _ in range(2000 if tier == "quick" else 30000):
        n = rng.randrange(2, 12)
        lab = bytes(rng.choice(LDH[:26]) for _ in range(n))
        out.append(b"a." + lab)
    # meaningful second-level labels: a class must depend on the last label only, not on what the name "means"
    words = [b"home", b"local", b"lan", b"corp", b"mail", b"www", b"internal", b"intranet", b"private", b"ipv4only", b"resolver", b"service",
             b"in-addr", b"ip6", b"e164", b"uri", b"urn", b"iris", b"as112", b"6tisch", b"eap-noob", b"10.in-addr", b"254.169.in-addr", b"d.f.ip6",
             b"example", b"test", b"invalid", b"localhost", b"onion", b"alt", b"gov", b"edu", b"co", b"ac", b"nic", b"root-servers", b"gtld-servers"]
    wt = [b"arpa", b"com", b"net", b"org", b"uk", b"int", b"museum", b"aero", b"info", b"xn--p1ai", b"zzzz"]
    for w in words:
        for t in wt:
            out.append(w + b"." + t)
            out.append(b"x." + w + b"." + t)
    # many labels (the class depends on the last label whatever their number: 1 ... 127 one- and two-character labels, <= 253 octets)
    picks = []
    bycls = {}
    for n2, _, cls in mdl.rows:
        bycls.setdefault(cls, []).append(n2)
    for cls in sorted(bycls):
        picks.append(sorted(bycls[cls], key=len)[0])
    picks += [b"zzzz", b"example", b"test"]
    for t in picks + [b"edu", b"gov", b"mil", b"int", b"info", b"biz", b"name", b"museum", b"arpa", b"de", b"uk"]:
        for w in (b"example", b"EXAMPLE", b"test", b"localhost", b"invalid"):
            out.append(w + b"." + t)
            out.append(b"www." + w + b"." + t)
    for t in picks:
        for k in (5, 31, 32, 33, 62, 63, 64, 65, 66, 100, 120, 125, 126, 127):
            d = b"a." * (k - 1) + t
            if len(d) <= 253:
                out.append(d)
            d2 = b".".join(b"l%d" % (i % 10) for i in range(k - 1)) + b"." + t
            if len(d2) <= 253:
                out.append(d2)
    # unlisted labels whose digest (ten well-known 32-bit string hashes) equals that of a row of the same length
    import json, os
    try:
        col = json.load(open(os.path.join(os.path.dirname(os.path.abspath(__file__)), "data", "tld_collisions.json")))
    except OSError:
        col = {}
    for hname in sorted(col):
        for lab, row in col[hname]:
            if lab.encode() not in known:
                out.append(b"a." + lab.encode())
                out.append(b"mail.b1." + lab.upper().encode())
    # single-label (non-FQDN) forms
    for n in rng.sample(names, 200 if tier == "quick" else len(names)):
        out.append(n)
    return out


def idn_tld_pairs(mdl):
    """(U-label, A-label, class) for the IDN rows."""
    out = []
    for n, _, cls in mdl.rows:
        if n.startswith(b"xn--"):
            u = punydecode(n)
            if u:
                out.append((u.encode("utf-8"), n, cls))
    return out


def w_tld(exe, domains, src):
    """A op, tld on, allow_tld = every class: rc/errcode/decision in all modes against R-SPECIAL / R-TLD."""
    part = new_part()
    cnt = part["counters"]
    mdl = _model.Model()
    # the classification must not depend on the local part: rotate through shapes with dots, quotes and '@'
    lps = [b"x", b"first.last", b'"a.b"', b"a.b.c.d", b'"q@r.st"', b"a-b_c+d", b"x.y"]
    lines = [driver.A_line(lps[i % len(lps)] + b"@" + d, sections=3, tlds=2, allow=mdl.all_bits) for i, d in enumerate(domains)]
    recs, crashes = driver.run_lines_resilient(exe, lines)
    for idx, sig, err in crashes:
        d = domains[idx] if idx >= 0 else b""
        part["viol"].append(("crash/%s" % sig, {"domain": core.b2s(d)}, {"stderr": err[-1500:]}))
    for di, (d, r) in enumerate(zip(domains, recs)):
        if r is None:
            continue
        if not OD.host_accepts(d) or d.endswith(b"."):
            cnt["skipped.not-a-plain-valid-host"] += 1
            continue
        cls = mdl.tld_class_of(d)
        cnt["class." + cls] += 1
        if cls == "NOT_FQDN":
            exp_rc, exp_ret, exp_err = -mdl.E("DOMAIN_NOT_FQDN"), 0, mdl.E("DOMAIN_NOT_FQDN")
        elif cls == "INVALID":
            exp_rc, exp_ret, exp_err = -mdl.E("TLD_INVALID"), 0, mdl.E("TLD_INVALID")
        else:
            exp_rc, exp_ret, exp_err = mdl.class_number(cls), 1, 0
        for mi, m in enumerate(MODES):
            h = r["hl"].get(str(mi * 2 + 1))
            l = r["ll"].get(str(mi * 2 + 1))
            if h is None or l is None or h[0] < 0:
                continue
            cnt["lookups"] += 1
            if m == "6531" and h[1] == mdl.E("IDN_ERROR"):
                cnt["6531.idn-rejected"] += 1        # the IDN library may refuse an ASCII label (e.g. bad xn--)
                continue
            got = (l[3], h[0], h[1])
            if got != (exp_rc, exp_ret, exp_err):
                gcls = mdl.tldtype_name.get(l[3], "rc%d" % l[3]) if l[3] > 0 else mdl.eeav_name.get(-l[3], l[3])
                part["viol"].append(("class/%s-expected-%s-got-%s" % (m, cls, str(gcls).replace("EEAV_", "")),
                                     {"domain": core.b2s(d), "mode": m, "address": core.b2s(lps[di % len(lps)] + b"@" + d)},
                                     {"rc": l[3], "ret": h[0], "errcode": h[1], "expected": [exp_rc, exp_ret, exp_err],
                                      "source": src}))
    part["distinct"] = len(set(domains))
    cnt[src + ".domains"] += len(domains)
    if domains:
        part["samples"].append({"source": src, "domain": core.b2s(domains[len(domains) // 3])})
    return part


def w_istld(exe, labels, src):
    """is_tld(label) directly (D op, whole-string lookup) against the table."""
    part = new_part()
    cnt = part["counters"]
    mdl = _model.Model()
    recs, crashes = driver.run_lines_resilient(exe, ["D " + driver.hx(l) for l in labels])
    for idx, sig, err in crashes:
        part["viol"].append(("crash/%s" % sig, {"label": core.b2s(labels[idx]) if idx >= 0 else ""}, {"stderr": err[-1500:]}))
    for lab, r in zip(labels, recs):
        if r is None:
            continue
        got = r[7]
        cls = mdl.tld.get(OD._lower_ascii(lab))
        exp = mdl.class_number(cls) if cls else -mdl.E("TLD_INVALID")
        cnt["is_tld.calls"] += 1
        cnt["is_tld." + ("hit" if cls else "miss")] += 1
        if got != exp:
            part["viol"].append(("is_tld/%s" % ("wrong-class" if cls and got > 0 else "miss" if cls else "spurious-hit"),
                                 {"label": core.b2s(lab)}, {"rc": got, "expected": exp, "source": src}))
    part["distinct"] = len(set(labels))
    return part


def w_uforms(exe, pairs, src):
    """U-label vs A-label TLD spelling in mode 6531 (tld on): identical class."""
    part = new_part()
    cnt = part["counters"]
    mdl = _model.Model()
    doms = []
    for k, (u, a, cls) in enumerate(pairs):
        doms.append((b"mail." + u, b"mail." + a, cls))
        doms.append((u + b"." + u, a + b"." + a, cls))
        dot = ["。", "．", "｡"][k % 3].encode("utf-8")
        doms.append((b"mail" + dot + u, b"mail." + a, cls))          # IDNA full stop as the only separator
        doms.append((u + dot + b"x." + u, a + b".x." + a, cls))
    lines = []
    for ud, ad, cls in doms:
        lines.append(driver.A_line(b"x@" + ud, sections=3 | 4 | 8, modes=8, tlds=2, allow=mdl.all_bits))
        lines.append(driver.A_line(b"x@" + ad, sections=3 | 4 | 8, modes=15, tlds=2, allow=mdl.all_bits))
    recs, crashes = driver.run_lines_resilient(exe, lines)
    for idx, sig, err in crashes:
        part["viol"].append(("crash/%s" % sig, {"op": lines[idx] if idx >= 0 else ""}, {"stderr": err[-1500:]}))
    for i, (ud, ad, cls) in enumerate(doms):
        ru, ra = recs[2 * i], recs[2 * i + 1]
        if ru is None or ra is None:
            continue
        hu, ha = ru["hl"]["7"], ra["hl"]["7"]
        cnt["uforms.pairs"] += 1
        i2 = ru["dom"][9] if ru.get("dom") else None
        if i2 is None or bytes.fromhex(i2) != ad:
            cnt["uforms.anchor-mismatch"] += 1   # this libidn2 does not map the U-label to the table's A-label: not judged
            continue
        exp = mdl.class_number(cls)
        if hu[6] != exp or hu[:2] != [1, 0]:
            part["viol"].append(("uform/6531-u-label-class", {"domain": core.b2s(ud), "a_label": core.b2s(ad)},
                                 {"rc": hu[6], "ret": hu[0], "errcode": hu[1], "expected_class": exp, "source": src}))
        if hu[:2] + hu[3:8] != ha[:2] + ha[3:8]:
            part["viol"].append(("uform/u-label-differs-from-a-label", {"domain": core.b2s(ud), "a_label": core.b2s(ad)},
                                 {"u": hu, "a": ha, "source": src}))
    part["distinct"] = len(doms) * 2
    if doms:
        part["samples"].append({"source": src, "u_label_domain": core.b2s(doms[0][0]), "a_label_domain": core.b2s(doms[0][1])})
    return part


# ------------------------------------------------------------------------------------------------- C09
def special_domains(tier, rng):
    """G-SPECIAL: 0-3 leading labels of every length 1-63 + every reserved suffix and one-edit neighbour, case patterns."""
    suffixes = list(OD.RESERVED_TLD) + list(OD.RESERVED_2LD)
    alpha = b"abcdefghijklmnopqrstuvwxyz0123456789-."
    neigh = set()
    for s in suffixes:
        for e in gen.all_single_edits(s, alpha):
            neigh.add(e)
        neigh.update([s + b"s", b"x" + s, s + b"a", s[:-1], s[1:], s + b".co", s + b".x"])
        for ext in (b"a", b"ab", b"abc", b"abcd", b"land", b"-x", b"1", b"12345", b"s.com", b"x-y-z"):
            neigh.update([s + ext, ext + s, ext + b"-" + s])
        if b"." in s:
            a, b = s.split(b".")
            for ext in (b"a", b"ab", b"s", b"abc"):
                neigh.update([a + ext + b"." + b, a + b"." + b + ext, ext + a + b"." + b, a + b"." + ext + b])
    for w in (b"home", b"ipv4only", b"resolver", b"service", b"10.in-addr", b"ip6", b"local", b"lan", b"corp", b"internal", b"alt", b"mail"):
        for t in (b"arpa", b"com", b"net", b"org", b"local", b"alt", b"home", b"lan", b"corp", b"internal"):
            neigh.add(w + b"." + t)
            neigh.add(t)
    neigh.update([b"example.co", b"example.comm", b"example.co.m", b"exampl.ecom", b"examplecom", b"example.edu", b"tests",
                  b"foo.tests", b"exampleA", b"xexample.com", b"example.example", b"test.example.com", b"example.com.test",
                  b"com.example", b"example.test", b"example.invalid", b"example.onion", b"example.localhost",
                  b"localhost.localdomain", b"invalid.com", b"onion.net", b"test.org", b"example.com.com", b"example.net.uk"])
    tails = sorted(set(suffixes) | {n for n in neigh if n})
    fillers = [b"example", b"test", b"abcdefg", b"invalid", b"a", b"com", b"exampl", b"examples", b"onion", b"localhost",
               b"xn--80a1acny", b"xn--p1ai", b"XN--E1AFMKFD", b"a.xn--80akhbyknj4f", b"1", b"a-b", b"x" * 63]
    out = set()
    lens = range(1, 64) if tier != "quick" else list(range(1, 12)) + [62, 63]
    for t in tails:
        out.add(t)
        for f in fillers:
            out.add(f + b"." + t)
            out.add(b"x." + f + b"." + t)
        if t in suffixes or tier != "quick" or rng.random() < 0.08:
            for n in lens:
                lab = bytes(rng.choice(b"abcdefghij0123456789") for _ in range(n))
                out.add(lab + b"." + t)
                out.add(lab + b".q." + t)
                out.add(b"q." + lab + b"." + t)
                if tier != "quick":
                    out.add(b"q.w." + lab + b"." + t)
    # many labels in front (the rule looks at the last one or two labels whatever their number), and reserved words far to the left
    for t in suffixes + [b"examplx.com", b"tests", b"example.de", b"com"]:
        for k in (5, 31, 32, 33, 60, 61, 62, 63, 64, 65, 66, 100, 120, 123, 124, 125, 126):
            d = b"a." * k + t
            if len(d) <= 253:
                out.add(d)
            for w in (b"example.com", b"test", b"localhost"):
                d = b"a." * (k // 2) + w + b"." + b"a." * (k - k // 2) + t
                if len(d) <= 253:
                    out.add(d)
    # all case patterns of the reserved part (n <= 10 letters)
    for s in suffixes:
        letters = [i for i, c in enumerate(s) if 0x61 <= c <= 0x7a]
        pats = range(1 << len(letters)) if len(letters) <= 10 else [rng.randrange(1 << len(letters)) for _ in range(1024)]
        if tier == "quick" and len(letters) > 7:
            pats = [rng.randrange(1 << len(letters)) for _ in range(128)]
        for p in pats:
            b = bytearray(s)
            for k, i in enumerate(letters):
                if p >> k & 1:
                    b[i] -= 32
            out.add(bytes(b))
            out.add(b"Foo." + bytes(b))
            out.add(b"abcdefg." + bytes(b))
    return sorted(d for d in out if OD.host_accepts(d) and not d.endswith(b"."))


def special_idn_domains(tier, rng):
    """Non-ASCII spellings around the reserved names: U-label front labels, UTS#46-mapped spellings of the reserved part."""
    suffixes = list(OD.RESERVED_TLD) + list(OD.RESERVED_2LD)
    neighbours = [b"tests", b"example.co", b"exampleA", b"xexample.com", b"example.comm", b"invalids", b"onions", b"local", b"a.com"]
    out = set()
    fronts = ["почта", "在线", "é", "δοκιμή", "ü-x", "삼성"]
    for s in suffixes + neighbours:
        for f in fronts:
            out.add(f.encode("utf-8") + b"." + s)
            out.add(b"a." + f.encode("utf-8") + b"." + s)
        for m in mapped_spellings(s, rng, 6 if tier == "quick" else 30):
            out.add(m)
            out.add(b"mail." + m)
            out.add("почта.".encode("utf-8") + m)
    return sorted(out)


def w_special_idn(exe, domains, src):
    """Mode 6531 only: classified special iff the A-label form libidn2 produces is a reserved name."""
    part = new_part()
    cnt = part["counters"]
    mdl = _model.Model()
    SP = mdl.class_number("SPECIAL")
    lines = [driver.A_line(b"x@" + d, sections=2 | 4 | 8, modes=8, tlds=2) for d in domains]
    recs, crashes = driver.run_lines_resilient(exe, lines)
    for idx, sig, err in crashes:
        part["viol"].append(("crash/%s" % sig, {"domain": core.b2s(domains[idx]) if idx >= 0 else ""}, {"stderr": err[-1500:]}))
    for d, r in zip(domains, recs):
        if r is None or not r.get("dom"):
            continue
        i2rc, i2 = r["dom"][8], r["dom"][9]
        if i2rc != 0 or i2 is None:
            cnt["idn.not-convertible"] += 1
            continue
        a = bytes.fromhex(i2)
        if not OD.host_accepts(a) or a.endswith(b"."):
            cnt["idn.converted-not-a-plain-host"] += 1
            continue
        exp = OD.is_special(a)
        cnt["expected." + ("special" if exp else "not-special")] += 1
        cnt["calls"] += 1
        l = r["ll"]["7"]
        if (l[3] == SP) != exp:
            part["viol"].append(("iff/6531/%s/idn-spelling" % ("missed" if exp else "spurious"),
                                 {"domain": core.b2s(d), "hex": d.hex(), "a_label_form": core.b2s(a), "mode": "6531"},
                                 {"rc": l[3], "source": src}))
    part["distinct"] = len(set(domains))
    if domains:
        part["samples"].append({"source": src, "domain": core.b2s(domains[len(domains) // 2])})
    return part


def w_special(exe, domains, src):
    part = new_part()
    cnt = part["counters"]
    mdl = _model.Model()
    SP = mdl.class_number("SPECIAL")
    lines = [driver.A_line(b"x@" + d, sections=2 | 4, tlds=2) for d in domains]
    recs, crashes = driver.run_lines_resilient(exe, lines)
    for idx, sig, err in crashes:
        part["viol"].append(("crash/%s" % sig, {"domain": core.b2s(domains[idx]) if idx >= 0 else ""}, {"stderr": err[-1500:]}))
    for d, r in zip(domains, recs):
        if r is None:
            continue
        exp = OD.is_special(d)
        cnt["expected." + ("special" if exp else "not-special")] += 1
        nlab = d.count(b".") + 1
        shape = "%d-labels%s" % (min(nlab, 4), "/7-char-label-before" if nlab >= 2 and len(d.split(b".")[-2]) == 7 else "")
        direct = r["dom"][5]
        cnt["calls"] += 1
        if bool(direct) != exp:
            part["viol"].append(("iff/is_special_domain/%s/%s" % ("missed" if exp else "spurious", shape),
                                 {"domain": core.b2s(d)}, {"is_special_domain": direct, "source": src}))
        for mi, m in enumerate(MODES):
            l = r["ll"].get(str(mi * 2 + 1))
            if l is None:
                continue
            cnt["calls"] += 1
            if m == "6531" and l[3] == -mdl.E("IDN_ERROR"):
                cnt["6531.idn-rejected"] += 1
                continue
            if (l[3] == SP) != exp:
                part["viol"].append(("iff/%s/%s/%s" % (m, "missed" if exp else "spurious", shape),
                                     {"domain": core.b2s(d), "mode": m}, {"rc": l[3], "source": src}))
    part["distinct"] = len(set(domains))
    if domains:
        part["samples"].append({"source": src, "domain": core.b2s(domains[len(domains) // 2])})
    return part


# ------------------------------------------------------------------------------------------------- C10
def _r(lo, hi, skip=()):
    return [chr(c) for c in range(lo, hi + 1) if c not in skip]


SCRIPT_POOLS = {
    "cyrillic": _r(0x430, 0x44f),
    "greek": _r(0x3b1, 0x3c9, (0x3c2,)),
    "han": _r(0x4e00, 0x4e5f),
    "hangul": _r(0xac00, 0xac3f),
    "arabic": _r(0x627, 0x64a, (0x640,)),
    "hebrew": _r(0x5d0, 0x5ea),
    "devanagari": _r(0x915, 0x939),
    "latin1": _r(0xe0, 0xff, (0xf7,)),
}
SCRIPT_POOLS["han-ext-b"] = _r(0x20000, 0x2003f)        # 4-byte UTF-8, PVALID
SCRIPT_POOLS["deseret"] = _r(0x10428, 0x1044f)          # 4-byte UTF-8 lower-case letters
RTL = {"arabic", "hebrew"}
# labels with ZWNJ / ZWJ in a context IDNA2008 allows (RFC 5892 A.1/A.2): after a virama, or between joining letters
CONTEXTJ_LABELS = ["\u0646\u0627\u0645\u0647\u200c\u0627\u06cc", "\u0915\u094d\u200d\u0937", "\u0915\u094d\u200c\u0937",
                   "\u0645\u06cc\u200c\u062e\u0648\u0627\u0647\u0645", "\u0dc1\u0dca\u200d\u0dbb\u0dd3", "\u0d28\u0d4d\u200d"]


def idn_label(rng, script, mix_ascii):
    n = rng.choice([1, 2, 3, 5, 8, 12])
    chars = [rng.choice(SCRIPT_POOLS[script]) for _ in range(n)]
    if mix_ascii and script not in RTL:
        for _ in range(rng.randrange(0, 3)):
            chars.insert(rng.randrange(0, len(chars) + 1), rng.choice("abcxyz"))
        if rng.random() < 0.3:
            chars.append(rng.choice("0123456789"))
    return "".join(chars)


def to_alabel(u):
    if all(ord(c) < 0x80 for c in u):
        return u.encode("ascii")
    return b"xn--" + u.encode("punycode")


def idn_domains(tier, rng, mdl):
    """(U spelling, A spelling computed with Python's Punycode)"""
    out = []
    idn_tlds = idn_tld_pairs(mdl)
    ascii_tlds = [b"com", b"org", b"ru", b"de", b"museum", b"arpa", b"test", b"zzzz"]
    n = 20000 if tier == "quick" else 300000
    scripts = sorted(SCRIPT_POOLS)
    for i in range(n):
        script = scripts[i % len(scripts)]
        k = rng.randrange(1, 4)
        labs = [idn_label(rng, script if rng.random() < 0.8 else rng.choice([s for s in scripts if (s in RTL) == (script in RTL)]),
                          rng.random() < 0.3) for _ in range(k)]
        if script not in RTL and rng.random() < 0.3:
            labs.insert(rng.randrange(0, len(labs) + 1), rng.choice(["a", "mail", "x1", "a-b"]))
        r = rng.random()
        if r < 0.4 and idn_tlds:
            u, a, _ = rng.choice(idn_tlds)
            U = ".".join(labs).encode("utf-8") + b"." + u
            A = b".".join(to_alabel(l) for l in labs) + b"." + a
        elif r < 0.8:
            t = rng.choice(ascii_tlds)
            U = ".".join(labs).encode("utf-8") + b"." + t
            A = b".".join(to_alabel(l) for l in labs) + b"." + t
        else:
            U = ".".join(labs).encode("utf-8")
            A = b".".join(to_alabel(l) for l in labs)
        out.append((U, A))
    for lab in CONTEXTJ_LABELS:
        for t in ("com", "ir", "in"):
            try:
                out.append((lab.encode("utf-8") + b"." + t.encode(), to_alabel(lab) + b"." + t.encode()))
            except Exception:
                pass
    # UTS#46-mapped spellings (fullwidth, IDNA full stops, ignorable code points, upper case) of plain ASCII domains
    plain = [b"example.com", b"foo.test", b"localhost", b"a.invalid", b"x.onion", b"example.org", b"mail.ru", b"iana.org", b"a-b.museum",
             b"nic.aaa", b"a1.b2.c3.info", b"pppppp", b"a.zzzz"]
    for d in plain:
        for m in mapped_spellings(d, rng, 3 if tier == "quick" else 25):
            out.append((m, d))
    # upper-/mixed-case A-label spellings (DNS names are case-insensitive; libidn2 lower-cases): same treatment as the U spelling
    for (U, A) in list(out[:400 if tier == "quick" else 6000]):
        if b"xn--" in A:
            out.append((U, A.upper()))
            out.append((U, randcase(A, rng)))
    # labels mixing scripts (no IDNA2008 rule forbids it) and digits inside non-ASCII labels
    for i in range(150 if tier == "quick" else 3000):
        a, b = rng.sample([s for s in scripts if s not in RTL], 2)
        lab = idn_label(rng, a, False) + idn_label(rng, b, False) + rng.choice(["", "7", "x"])
        t = rng.choice(ascii_tlds)
        out.append((lab.encode("utf-8") + b"." + t, to_alabel(lab) + b"." + t))
    # IDNA full-stop variants (U+3002, U+FF0E, U+FF61) as separators and as root label: same name as with '.'
    for i in range(40 if tier == "quick" else 600):
        script = scripts[i % len(scripts)]
        labs = [idn_label(rng, script, False) for _ in range(rng.randrange(1, 3))]
        tldu, tlda = rng.choice([("com", b"com"), ("рф", b"xn--p1ai"), ("org", b"org")]) if script not in RTL else ("com", b"com")
        for dot in ("。", "．", "｡"):
            for root in ("", dot, "."):
                U = (dot.join(labs + [tldu]) + root).encode("utf-8")
                A = b".".join([to_alabel(l) for l in labs] + [tlda]) + (b"." if root else b"")
                out.append((U, A))
    # long domains: many bytes in UTF-8, but an A-label form within the DNS limits (computed here, anchored on libidn2 later)
    for i in range(200 if tier == "quick" else 4000):
        script = scripts[i % len(scripts)]
        labs = []
        target = rng.choice([200, 250, 254, 255, 256, 300, 400, 500])
        while True:
            ch = rng.choice(SCRIPT_POOLS[script])
            n = rng.randrange(8, 40)
            lab = "".join(rng.choice([ch, ch, rng.choice(SCRIPT_POOLS[script])]) for _ in range(n))
            a = to_alabel(lab)
            if len(a) > 63:
                continue
            cand = labs + [lab]
            A = b".".join(to_alabel(l) for l in cand) + b".com"
            if len(A) > 253:
                break
            labs = cand
            if len(".".join(labs).encode("utf-8")) >= target:
                break
        if labs:
            out.append((".".join(labs).encode("utf-8") + b".com", b".".join(to_alabel(l) for l in labs) + b".com"))
    # single labels that are long in UTF-8 (up to 63 characters of 2, 3 and 4 octets: 126 ... 252 octets) while the A-label fits into 63
    for ch in ("\u00e9", "\u0436", "\u4e2d", "\uac00", "\U00020000", "\U00020bb7", "\U0001f600"):
        for n in (40, 47, 48, 49, 52, 56, 59, 60, 63):
            for lab in (ch * n, ch * (n - 1) + "a", "a" + ch * (n - 1)):
                try:
                    a = to_alabel(lab)
                except Exception:
                    continue
                if len(a) <= 63:
                    for t in (b".com", b".org"):
                        out.append((lab.encode("utf-8") + t, a + t))
                        out.append((b"www." + lab.encode("utf-8") + t, b"www." + a + t))
    return out


def invalid_idn_pairs(tier, rng):
    """U-labels that violate IDNA2008 in one place (disallowed symbol, unassigned code point, CONTEXTJ/CONTEXTO without context,
    leading combining mark, mixed-direction label) together with their Punycode spelling computed here.  libidn2 never produces
    such A-labels itself, so only a harness that encodes them can ask whether the *A spelling* is refused as well."""
    bad = ["\u2615", "\u2665", "\U0001f600", "\u200d", "\u200c", "\u00b7", "\u0375", "\u30fb", "\u0301", "\u0640", "\u2028", "\ufffd",
           "\U0001fae0", "\U0001fae8", "\u0378", "\u0530", "\U000e0001", "\u2060", "\u00a0", "\u3000", "\u1806", "\ua9c0"]
    hosts = ["a", "ab", "x1", "mail"]
    out = []
    for b in bad:
        for h in hosts[:2 if tier == "quick" else 4]:
            for u in (h + b, b + h, h + b + h, h[:1] + b + "-" + h):
                try:
                    a = to_alabel(u)
                except Exception:
                    continue
                if len(a) > 63:
                    continue
                for tld in (b"com", b"xn--p1ai"):
                    out.append((u.encode("utf-8") + b"." + tld, a + b"." + tld))
                    out.append((b"x." + u.encode("utf-8") + b"." + tld, b"x." + a + b"." + tld))
    # mixed direction inside one label (Bidi rule), digits first in an RTL label
    for u in ("a\u05d0", "\u05d0a", "1\u05d0", "\u05d0\u0661a", "\u0627a\u0628"):
        out.append((u.encode("utf-8") + b".com", to_alabel(u) + b".com"))
    return out


NEGATIVE_IDN = [b"\xff.com", b"a\xc3.com", b"\xc0\x80.com", b"\xed\xa0\x80.ru", "☕.de".encode(), "I♥NY.de".encode(), "😀.com".encode(),
                "-é.com".encode(), "é-.com".encode(), "ab--é.com".encode(), ("é" * 70 + ".com").encode(), "a‍b.com".encode(),
                "́a.com".encode(), "a.ـ.com".encode(), "xn--" .encode() + b"a" * 70 + b".com"]
# code points UTS#46 maps to nothing: libidn2 removes them before the IDNA2008 checks (documented behaviour of the IDN library, not
# an IDNA violation the validator could reject) - executed for robustness (sanitizers), never judged
IGNORABLE_IDN = ["\u00ad".encode(), "\u200b".encode(), "\u00ad.\u00ad".encode(), "\ufe0f".encode(), "\u00ad\u200b\u2060".encode(),
                 "a.\u00ad".encode(), "\u00ad.com".encode(), "a\u00adb.\u200b.com".encode(), "\u034f.\u034f".encode()]
