"""Per-run build context: lazily builds driver variants from /repo's working tree into a private temp dir."""
import os
from . import build


class Ctx:
    def __init__(self, tag="chk"):
        self.dir = build.workdir(tag)
        self.exes = {}
        self.flags = {}

    def exe(self, name="asan", driver=("drv/exec.c",), **kw):
        key = name
        if key not in self.exes:
            kw.setdefault("san", "asan")
            exe, flags = build.build_variant(self.dir, name, list(driver), **kw)
            self.exes[key] = exe
            self.flags[key] = " ".join(f for f in flags if not f.startswith("-I"))
        return self.exes[key]

    def builds_info(self):
        info = {"repo": build.repo_state(), "stock_option_macros": build.stock_option_macros()}
        info["variants"] = dict(self.flags)
        return info
