"""Constants read from the public headers of /repo's working tree + the pinned message vocabulary."""
import os, re
from . import build, oracle_domain as OD

REPO = build.REPO

# message text (as documented in docs/libeav.3.pod and shipped in src/eav.c at the pinned commit) -> code name.
# Used only to judge whether the *message* names a condition that holds; an unknown text is not judged.
PINNED_MESSAGES = {
    "no error": "EEAV_NO_ERROR",
    "invalid RFC specified": "EEAV_INVALID_RFC",
    "idn internal error": "EEAV_IDN_ERROR",
    "empty email address": "EEAV_EMAIL_EMPTY",
    "local-part is empty": "EEAV_LPART_EMPTY",
    "local-part is too long": "EEAV_LPART_TOO_LONG",
    "local-part has non-ascii characters": "EEAV_LPART_NOT_ASCII",
    "local-part has special characters": "EEAV_LPART_SPECIAL",
    "local-part has control characters": "EEAV_LPART_CTRL_CHAR",
    "local-part has misplaced double quote": "EEAV_LPART_MISPLACED_QUOTE",
    "local-part has open double quote": "EEAV_LPART_UNQUOTED",
    "local-part has too many dots": "EEAV_LPART_TOO_MANY_DOTS",
    "local-part has misplaced dot": "EEAV_LPART_MISPLACED_DOT",
    "local-part has unquoted characters": "EEAV_LPART_UNQUOTED_FWS",
    "local-part has invalid folding": "EEAV_LPART_INVALID_FOLDING",
    "local-part has invalid UTF-8 data": "EEAV_LPART_INVALID_UTF8",
    "domain is empty": "EEAV_DOMAIN_EMPTY",
    "domain label is too long": "EEAV_DOMAIN_LABEL_TOO_LONG",
    "domain has misplaced hyphen": "EEAV_DOMAIN_MISPLACED_HYPHEN",
    "domain has misplaced delimiter": "EEAV_DOMAIN_MISPLACED_DELIMITER",
    "domain has invalid characters": "EEAV_DOMAIN_INVALID_CHAR",
    "domain is too long": "EEAV_DOMAIN_TOO_LONG",
    "domain is all-numeric": "EEAV_DOMAIN_NUMERIC",
    "domain is not FQDN": "EEAV_DOMAIN_NOT_FQDN",
    "ip-addr is incorrect": "EEAV_IPADDR_INVALID",
    "ip-addr has unpaired bracket": "EEAV_IPADDR_BRACKET_UNPAIR",
    "invalid TLD": "EEAV_TLD_INVALID",
    "not assigned TLD": "EEAV_TLD_NOT_ASSIGNED",
    "country-code TLD": "EEAV_TLD_COUNTRY_CODE",
    "generic TLD": "EEAV_TLD_GENERIC",
    "generic-restricted TLD": "EEAV_TLD_GENERIC_RESTRICTED",
    "infrastructure TLD": "EEAV_TLD_INFRASTRUCTURE",
    "sponsored TLD": "EEAV_TLD_SPONSORED",
    "test TLD": "EEAV_TLD_TEST",
    "special TLD": "EEAV_TLD_SPECIAL",
    "retired TLD": "EEAV_TLD_RETIRED",
}

CLASSES = ["NOT_ASSIGNED", "COUNTRY_CODE", "GENERIC", "GENERIC_RESTRICTED", "INFRASTRUCTURE", "SPONSORED", "TEST",
           "SPECIAL", "RETIRED"]


class Model:
    def __init__(self, repo=REPO):
        self.eeav = OD.parse_enum(repo, "include/eav.h", "EEAV_")
        self.eeav.pop("EEAV_MAX", None)
        self.eeav_name = {v: k for k, v in self.eeav.items()}
        self.eavtld = OD.parse_enum(repo, "include/eav.h", "EAV_TLD_")          # bits
        self.tldtype = OD.parse_enum(repo, "include/eav/auto_tld.h", "TLD_TYPE_")  # class numbers
        self.tldtype_name = {v: k[len("TLD_TYPE_"):] for k, v in self.tldtype.items()}
        self.rfc = OD.parse_enum(repo, "include/eav.h", "EAV_RFC_")
        self.rows = OD.load_tld_table(repo)
        self.tld = {}
        for name, length, cls in self.rows:
            self.tld.setdefault(OD._lower_ascii(name), cls)
        self.all_bits = 0
        for c in CLASSES:
            self.all_bits |= self.eavtld["EAV_TLD_" + c]
        self.default_allow = 0
        for c in ("COUNTRY_CODE", "GENERIC", "GENERIC_RESTRICTED", "INFRASTRUCTURE", "SPONSORED", "SPECIAL"):
            self.default_allow |= self.eavtld["EAV_TLD_" + c]

    def E(self, name):
        return self.eeav["EEAV_" + name]

    def class_number(self, cls):
        return self.tldtype["TLD_TYPE_" + cls]

    def class_bit(self, cls):
        return self.eavtld["EAV_TLD_" + cls]

    def class_errcode(self, cls):
        return self.eeav["EEAV_TLD_" + cls]

    def tld_class_of(self, host):
        """R-SPECIAL / R-TLD on a valid host name (ASCII, no root dot): class name, 'INVALID' or 'NOT_FQDN'."""
        if OD.is_special(host):
            return "SPECIAL"
        labels = host.split(b".")
        if len(labels) < 2:
            return "NOT_FQDN"
        return self.tld.get(OD._lower_ascii(labels[-1]), "INVALID")
