"""Whole-address corpora + the generic record worker used by C01, C12, C15, C16 (and C17/C18 differentials)."""
import collections, itertools, json, random
from . import gen, driver, core, monitors, model as _model, oracle_local as OL, domgen, build

LOCAL_CORE = [
    b"a", b"abc", b"a.b", b"a..b", b".a", b"a.", b".", b'"a"', b'"a b"', b'"a"b', b'a"b"', b'"a".b', b'a."b"', b'"a"."b"',
    b'"a\\"b"', b'"a\\ b"', b'"a', b'a"', b'"', b'""', b'"\\"', b'"a\x01"', b'"\x7f"', b'"\r\n "', b'"\r\n"', b'"a\rb"',
    b'"a\nb"', b'"a\tb"', b'" a"', b'"a "', b'"a b c"', b'"\\\x01"', b'"\\\r"', b"a b", b"a\x01", b"a(b", b"a@b", b'"a@b"',
    b"a\\b", b"a[b", b"a,b", b"a;b", b"a:b", b"a<b>", b"#a", b"a^b", b"{a}", b"a|b~`", b"!#$%&'*+-/=?^_`{}|~", b"a+b",
    b"a-b", b"_", b"-", b"1", "é".encode(), "é.a".encode(), "a.é.b".encode(), '"é"'.encode(), 'é"a"'.encode(),
    '"\\é"'.encode(), "иван".encode(), "用户".encode(), b"\xff", b"a\xc3", b"\xc0\x80", b"\xed\xa0\x80", "😀".encode(),
    b"a" * 63, b"a" * 64, b"a" * 65, b'"' + b"a" * 62 + b'"', b'"' + b"a" * 63 + b'"', (b"a." * 32)[:-1], b"a." * 32 + b"a",
    b"a" * 64 + b".", b" a", b"a ", b"\ta", b"a\r\n", b'"a"\r\n', b"a\x7f", b"a\x80",
    # several folds in one quoted word (each CR is followed by LF and a blank), folds next to blanks and escapes
    b'"\r\n \r\n "', b'"a\r\n \r\n b"', b'"\r\n\t\r\n\t"', b'"\r\n  \r\n a"', b'"a \r\n \r\n \r\n b"', b'"\\\r\n "', b'"\r\n \\a\r\n "',
    b'"\r\n \r\n"', b'"\r\n \r"', b'"\r\n \n "',
    # ill-formed UTF-8 whose *decoded value* would be harmless or a control: overlongs, boundaries, > U+10FFFF
    b"\xc1\xbf", b"a\xc0\xafb", b"\xe0\x9f\xbf", b"\xf0\x8f\xbf\xbf", b"\xf4\x90\x80\x80", b'"\xc1\xbf"', b"\xc2\x7f", b"\xdf\xc0",
    b"\xef\xbf\xbf", b"\xf4\x8f\xbf\xbf", b"\xc2\x80", b"\xe0\xa0\x80", b"\xf0\x90\x80\x80",
]

DOMAIN_CORE = [
    b"a.bc", b"example.com", b"example.org", b"EXAMPLE.NET", b"test", b"localhost", b"a.test", b"a.invalid", b"x.onion",
    b"example", b"foo.example", b"abcdefg.test", b"iana.org", b"mail.ru", b"nic.aaa", b"a.abarth", b"a.arpa", b"a.museum",
    b"a.mil", b"a.gov", b"a.biz", b"a.name", b"a.pro", b"a.zzzz", b"a.co", b"a.c", b"a.comm", b"a.com.", b"a.com..", b"com",
    b"pppppp", b"a", b"a.", b".", b"..", b".a", b"a..b", b"-a.com", b"a-.com", b"a.-com", b"a.com-", b"a-b.com", b"a--b.com",
    b"xn--p1ai.com", b"xn---abc.com", b"a.xn--p1ai", b"a.xn--zzzzzz", b"a_b.com", b"_a.com", b"a.b_c", b"1.2.3.4", b"123", b"1.com",
    b"a.1", b"1a.2b", b"a b.com", b" a.com", b"a.com ", b"a.com\t", b"a!.com", b"a@b.com", b"a..com", b"A.COM", b"a.CoM",
    b"a" * 63 + b".com", b"a" * 64 + b".com", b"a." + b"b" * 63, b"a." + b"b" * 64,
    ("почта.рф").encode(), ("ПоЧтА.РФ").encode(), ("在线.在线").encode(), ("삼성.삼성").encode(), ("δοκιμή.δοκιμή").encode(),
    ("неправильный.домен").encode(), ("微博").encode(), ("a.рф").encode(), ("ab.ею").encode(), ("I♥NY.de").encode(),
    ("☕.de").encode(), ("faß.de").encode(), ("a.b‍c.com").encode(), b"\xff.com", b"a.\xc3", ("é" * 40 + ".com").encode(),
    ("é" * 80 + ".com").encode(), ("عربي.مصر").encode(), ("טעסט.טעסט").encode(),
    b"[1.2.3.4]", b"[8.8.8.8]", b"[255.255.255.255]", b"[0.0.0.0]", b"[0.1.2.3]", b"[256.1.1.1]", b"[1.2.3]", b"[1.2.3.4.5]",
    b"[1.2.3.4]x", b"[1.2.3.4].com", b"[1.2.3.4", b"1.2.3.4]", b"[]", b"[", b"]", b"[a]", b"a[1.2.3.4]", b" [1.2.3.4]",
    b"[ 1.2.3.4]", b"[1.2.3.4 ]", b"[IPv6:::1]", b"[IPv6:1:2:3:4:5:6:7:8]", b"[IPv6:2001:db8::1]", b"[IPv6:::ffff:1.2.3.4]",
    b"[IPv6:1::1.2.3.4]", b"[IPv6:1:2]", b"[IPv6:1.2.3.4]", b"[ipv6:::1]", b"[IPv6:ge80::1]", b"[1:2:3:4:5:6:7:8]", b"[::1]",
    b"[2001:db8::1]", b"[foo:1.2.3.4]", b"[IPv6:1:2:3:4:5:6:7:8]:9", b"[IPv6:::ffff:0.1.2.3]", b"[IPv6:]", b"[IPv6::::]",
    b"[IPv6:2001:0db8:0000:0000:0000:ffff:192.168.100.200]", b"[IPv6:0000:0000:0000:0000:0000:ffff:255.255.255.255]",
    b"[IPv6:ffff:ffff:ffff:ffff:ffff:ffff:ffff:ffff]", b"[IPv6:1111:2222:3333:4444:5555:6666:123.123.123.123]", b"[IPv6:::ffff:192.168.100.200]",
    b"[255.255.255.255]", b"[IPv6:1:2:3:4:5:6:7::]", b"[IPv6:::2:3:4:5:6:7:8]", b"[127.0.0.1]", b"[IPv6:::1]",
    b"[1.2.3.4][5.6.7.8]", b"[[1.2.3.4]]", b"[1.2.3.4]]", b"[1111111]", b"[aaaaaaaa]:b:c",
    # code points that IDNA maps to nothing / ignorable: the converted name can be empty or lose a label
    "\u00ad".encode(), "\u00ad.com".encode(), "a\u00adb.com".encode(), "\u200b".encode(), "\ufe0f.com".encode(), "a.\u00ad".encode(),
    "\u00ad\u00ad.\u00ad".encode(), "\u2060.ru".encode(), "\u034f".encode(), "a.\u200b.com".encode(),
    # very long domains (beyond DNS limits, beyond 1 KiB / 4 KiB internal buffers)
    b"a" * 300 + b".com", b"a" * 1100 + b".com", (b"ab." * 400) + b"com", (b"ab." * 1500) + b"com", ("ж" * 600 + ".рф").encode(),
    ("жы." * 400 + "рф").encode(), b"a." * 130 + b"com", b"[" + b"1." * 600 + b"1]", b"[IPv6:" + b"1:" * 600 + b"1]", b"-" * 1030,
    ("é" * 30 + ".").encode() * 20 + b"com",
]


def local_pool(tier, rng):
    out = set(LOCAL_CORE)
    toks = [b"a", b"#", b'"', b"\\", b".", b" ", b"\r", b"\n", b"\x01", b"(", b"\xff", "é".encode()]
    out.update(s for s in gen.enum_strings(toks, 2) if s)
    corp = gen.corpus_localparts()
    out.update(corp)
    n = 150 if tier == "quick" else 1500
    for _ in range(n):
        out.add(gen.mutate(rng.choice(LOCAL_CORE + corp), rng, rng.randrange(1, 3)))
    return sorted(x for x in out if x and b"\x00" not in x)


def domain_pool(tier, rng, model):
    out = set(DOMAIN_CORE)
    corp = gen.corpus_domains()
    out.update(corp)
    # one TLD of every class that occurs in the table + IDN TLDs
    bycls = collections.defaultdict(list)
    for name, ln, cls in model.rows:
        bycls[cls].append(name)
    for cls, names in bycls.items():
        for nm in rng.sample(names, min(len(names), 3 if tier == "quick" else 12)):
            out.add(b"mail." + nm)
            out.add(b"a.b." + nm.upper())
    n = 150 if tier == "quick" else 1500
    base = sorted(out)
    for _ in range(n):
        out.add(gen.mutate(rng.choice(base), rng, rng.randrange(1, 3)))
    return sorted(x for x in out if x and b"\x00" not in x)


def address_corpus(tier, seed, model, cross=True):
    rng = random.Random(seed)
    lp = local_pool(tier, rng)
    dp = domain_pool(tier, rng, model)
    out = set()
    if cross:
        if tier == "quick":
            lsel = sorted(set(LOCAL_CORE) | set(rng.sample(lp, min(len(lp), 220))))
            dsel = sorted(set(DOMAIN_CORE) | set(rng.sample(dp, min(len(dp), 220))))
        else:
            lsel, dsel = lp, dp
        for l in lsel:
            for d in dsel:
                out.add(l + b"@" + d)
    # '@' count and placement
    for base in (b"a.bc", b"abc", b"a@b.cd", b"a@[1.2.3.4]"):
        for n in range(0, 6):
            for pos in itertools.combinations(range(len(base) + 1), min(n, 3)):
                s = bytearray(base)
                for p in reversed(pos):
                    s[p:p] = b"@"
                out.add(bytes(s))
    for w in (b"postmaster", b"Postmaster", b"POSTMASTER", b"abuse", b"root", b"MAILER-DAEMON", b"hostmaster", b"webmaster", b"admin",
              b"nobody", b"<>", b"<postmaster>", b"postmaster@", b"@postmaster", b"mailto:a@b.cd", b"a@b.cd>", b"<a@b.cd>", b"localhost", b"example.com"):
        out.add(w)
        out.add(w + b"@example.com" if b"@" not in w else w)
    out.update([b"@", b"@@", b"a@", b"@a.bc", b"a@@b.cd", b"@@a.bc", b"a@b@c.de", b'"a@b"@c.de', b"a@b.cd@", b"a", b"a.bc"])
    # local-part length boundary in several shapes
    for n in range(60, 70):
        qp = b'"' + (b"\\a" * n)[:(n - 2) & ~1] + (b"b" if n % 2 else b"") + b'"'        # quoted-pairs: octets, not characters, count
        for l in (b"a" * n, b'"' + b"a" * max(0, n - 2) + b'"', (b"ab." * n)[:n - 1] + b"a", "é".encode() * (n // 2) + b"a" * (n % 2), qp,
                  b'"' + b"\\\"" * ((n - 2) // 2) + b'"'):
            for d in (b"a.bc", b"[1.2.3.4]", "почта.рф".encode()):
                out.add(l + b"@" + d)
    # every byte value at every position of a few accepted addresses (substitution)
    # IPv6 literals with an embedded IPv4 tail, with and without the tag (the library tolerates untagged IPv6): a classification of the
    # literal by "contains a dot" instead of by the parser that accepted it shows in the family flags
    for inner in (b"::ffff:192.0.2.128", b"1:2:3:4:5:6:192.0.2.1", b"::192.0.2.1", b"1::2:10.1.2.3", b"::ffff:1.2.3.4", b"1:2:3:4:5:6:7:8",
                  b"1::8", b"fe80::1:2:3:4", b"::ffff:0.100.200.128", b"1:2:3:4:5:6:7:192.0.2.1"):
        out.update([b"user@[" + inner + b"]", b"user@[IPv6:" + inner + b"]", b"u.v@[ipv6:" + inner + b"]"])
    for base in (b"a@[IPv6:1:2:3:4:5:6:7:8]", b"ab@[1.2.3.4]", '"q.r"@почта.рф'.encode(), b"a.b@example.com"):
        for i in range(len(base)):
            for c in range(1, 256):
                if tier == "quick" and c % 2 and c > 0x20 and c < 0x7f and chr(c).isalnum():
                    continue
                out.add(base[:i] + bytes([c]) + base[i + 1:])
    # accepted U-label domains that are long in UTF-8 (> 255 bytes) while their A-label form fits
    for ch, nlab, rep in (("中", 5, 19), ("ж", 6, 24), ("가", 5, 18), ("é", 7, 20)):
        d = ".".join([ch * rep] * nlab) + ".com"
        out.add(b"user@" + d.encode("utf-8"))
        out.add(b"user@" + d.encode("utf-8") + b".")
    # code points that alias structural characters after a narrowing conversion, and combining marks, next to dots and quotes
    for cp in gen.aliasing_code_points()[:: (3 if tier == "quick" else 1)]:
        x = chr(cp).encode("utf-8")
        for l in (x + b".a", b"a." + x, b"a." + x + b".b", b'"' + x + b'"', x + b"a"):
            out.add(l + b"@a.bc")
    # two long-ish halves at once: local-part length x domain length grid (limits that depend on the *sum* or on both)
    def _dom(n):
        labs, left = [], n - 3
        while left > 0:
            k = min(63, left)
            labs.append(b"d" * k)
            left -= k + 1
        d = b".".join(labs) + b".cc"
        return d if len(d) == n else None
    for ln in (1, 2, 3, 4, 31, 32, 33, 62, 63, 64, 65):
        for dn in (60, 63, 64, 65, 66, 127, 128, 129, 187, 188, 189, 190, 191, 192, 193, 194, 250, 251, 252, 253, 254):
            d = _dom(dn)
            if d:
                out.add(b"a" * ln + b"@" + d)
                out.add((b"a." * ln)[:ln - 1] + b"b@" + d if ln > 1 else b"a@" + d)
    # number of words in the local part (atoms, quoted words, alternating), number of labels in the domain
    for k in list(range(1, 34)) + [40, 64]:
        out.add(b".".join([b"a"] * k)[:64] + b"@a.bc")
        out.add(b".".join([b'"q"', b"a"] * k)[:63].rstrip(b'."') + b"@a.bc")
        out.add(b".".join([b'""'] * k)[:64].rstrip(b".") + b"@a.bc")
        out.add(b"u@" + b".".join([b"l%d" % i for i in range(k)]) + b".com")
    # local parts around the 2^8 / 2^15 / 2^16 boundaries (length counters of every width), valid and invalid shapes
    for n in (255, 256, 257, 32767, 32768, 65535, 65536, 65537, 65536 + 40, 65536 + 64, 65536 + 65, 131072 + 3):
        for l in (b"a" * n, (b"ab." * n)[:n - 1] + b"c", b'"' + b"a" * (n - 2) + b'"'):
            out.add(l + b"@a.bc")
        out.add(b"a" * n + b" @a.bc")
    # A-labels with every kind of Punycode defect (bad input, overflow, big output, empty, non-LDH, upper case)
    for lab in (b"xn--99999999", b"xn--0000000000000", b"xn--zzzzzzzzzzzzzzzz", b"xn--a-", b"xn---", b"xn--", b"xn--a", b"xn--1", b"xn--aa--bb",
                b"XN--P1AI", b"xn--P1AI", b"xn--p1ai-", b"xn--" + b"9" * 59, b"xn--" + b"a" * 59, b"xn--bcher-kva8445foa", b"xn--\x80", b"xn--a.b"):
        out.add(b"u@" + lab + b".com")
        out.add(b"u@a." + lab)
        out.add(b"u@" + lab)
    # accepted addresses whose domain *spelling* is very long (>= 1 KiB): zero-padded literal, ignorable-padded U-label
    out.add(b"user@[" + b"0" * 1100 + b"1.2.3.4]")
    out.add(b"user@[1." + b"0" * 1500 + b"2.3.4]")
    out.add("user@a".encode() + "\u00ad".encode("utf-8") * 600 + b".com")
    out.add("user@".encode() + ("a" + "\u200b" * 700 + "b").encode("utf-8") + b".org")
    corp = gen.corpus_addresses()
    out.update(corp)
    for a in corp:
        for _ in range(6 if tier == "quick" else 60):
            out.add(gen.mutate(a, rng, rng.randrange(1, 3)))
    for _ in range(300 if tier == "quick" else 5000):
        n = rng.choice([1, 3, 8, 20, 70, 300, 2000])
        out.add(gen.rand_bytes(rng, n))
        out.add(rng.choice(lp) + b"@" + gen.rand_bytes(rng, rng.randrange(1, 20)))
        out.add(gen.rand_bytes(rng, rng.randrange(1, 20)) + b"@" + rng.choice(dp))
    out.discard(b"")
    res = sorted(x for x in out if b"\x00" not in x)
    res.insert(0, b"")
    return res


def get_idnmsgs(exe):
    try:
        return driver.run_lines(exe, ["I"])[0]
    except Exception:
        return {}


def w_addr(exe, addrs, props, opts, extra, sections, allow_on=None, src="addr"):
    """Run addresses through the A op and apply the monitors of `props`.  Returns a partial result per property."""
    mdl = _model.Model()
    cfg = monitors.Cfg(mdl, opts, extra, get_idnmsgs(exe), allow_on)
    parts = {p: {"counters": collections.Counter(), "viol": [], "samples": [], "distinct": 0, "sets": {}} for p in props}
    lines = [driver.A_line(a, sections=sections, allow=cfg.allow_on) for a in addrs]
    recs, crashes = driver.run_lines_resilient(exe, lines)
    for idx, sig, err in crashes:
        a = addrs[idx] if idx >= 0 else b""
        for p in props:
            parts[p]["viol"].append(("crash/%s" % sig, {"address": core.b2s(a), "hex": a.hex()}, {"stderr": err[-1500:]}))
    for a, rec in zip(addrs, recs):
        if rec is None:
            continue
        for p in props:
            out = []
            monitors.MONITORS[p](cfg, a, rec, out, parts[p]["counters"])
            for key, wit, det in out:
                det = dict(det or {})
                det["source"] = src
                parts[p]["viol"].append((key, wit, det))
    for p in props:
        parts[p]["distinct"] = len(set(addrs))
        parts[p]["counters"]["addresses"] += len(addrs)
        if addrs:
            parts[p]["samples"].append({"source": src, "address": core.b2s(addrs[len(addrs) // 3][:120])})
    return parts
