package Text::CSV;
# Minimal stand-in for Text::CSV (absent in this sandbox): the subset used by util/gentld.pl and
# util/gen_utf8_pass_test.pl -- new(\%opts), getline($fh) with RFC 4180 quoting, error_diag().
use strict;
use warnings;
our $VERSION = '0.01-verif-shim';
my $last_error = '';

sub new {
    my ($class, $opts) = @_;
    my $self = { %{ $opts || {} } };
    return bless $self, $class;
}

sub error_diag { return $last_error; }

sub getline {
    my ($self, $fh) = @_;
    my $line = <$fh>;
    return undef unless defined $line;
    # a quoted field may contain line breaks: keep reading while the quotes are unbalanced
    while ((() = $line =~ /"/g) % 2 == 1) {
        my $more = <$fh>;
        last unless defined $more;
        $line .= $more;
    }
    $line =~ s/\r?\n\z//;
    my @fields;
    my $i = 0;
    my $n = length $line;
    while ($i <= $n) {
        my $f = '';
        if ($i < $n && substr($line, $i, 1) eq '"') {
            $i++;
            while ($i < $n) {
                my $c = substr($line, $i, 1);
                if ($c eq '"') {
                    if ($i + 1 < $n && substr($line, $i + 1, 1) eq '"') { $f .= '"'; $i += 2; next; }
                    $i++;
                    last;
                }
                $f .= $c;
                $i++;
            }
            if ($i < $n && substr($line, $i, 1) ne ',') {
                $last_error = "EIQ - QUO character not allowed";
                die "Text::CSV(shim): $last_error\n" if $self->{auto_diag};
                return undef;
            }
        } else {
            my $j = index($line, ',', $i);
            $j = $n if $j < 0;
            $f = substr($line, $i, $j - $i);
            $i = $j;
        }
        push @fields, $f;
        last if $i >= $n;
        $i++;    # skip the comma
        if ($i == $n) { push @fields, ''; last; }
    }
    return \@fields;
}
1;
