/* Adapter library for C18 (see idna.h, idn/api.h). */
#include <pthread.h>
#include <stdlib.h>
#include <string.h>
#include <stdio.h>
#define IDN2_SKIP_LIBIDN_COMPAT 1
#include <idn2.h>
#include "idna.h"
#include "idn/api.h"

long verif_idn_creates = 0, verif_idn_destroys = 0, verif_idn_live = 0, verif_idn_bad_use = 0,
     verif_idn_double_destroy = 0, verif_idn_encodes = 0, verif_idn_bad_actions = 0;

int idna_to_ascii_lz(const char *input, char **output, int flags)
{
    /* libidn's flag bits are mapped onto libidn2's: a back end that passes other flags than the others converts differently */
    int f2 = IDN2_NONTRANSITIONAL;
    if (flags & IDNA_USE_STD3_ASCII_RULES) f2 |= IDN2_USE_STD3_ASCII_RULES;
    if (flags & IDNA_ALLOW_UNASSIGNED) f2 |= IDN2_ALLOW_UNASSIGNED;
    return idn2_to_ascii_8z(input, output, f2);
}

const char *idna_strerror(Idna_rc rc) { return idn2_strerror(rc); }

#define CTX_MAGIC_LIVE 0x1d1ec0deUL
#define CTX_MAGIC_DEAD 0xdeadc0deUL
struct verif_idn_ctx { unsigned long magic; long id; };
/* static arena: no heap traffic from the adapter itself (the allocation ledger of drv/hist.c must see libeav's blocks only) */
#define CTX_ARENA (1 << 20)
static struct verif_idn_ctx ctx_arena[CTX_ARENA];
/* contexts are never returned to the allocator, so that use-after-destroy and double destroy can be *observed*
 * (recorded at the moment they happen) instead of crashing the monitor */
static int ctx_in_arena(idn_resconf_t c) { return c >= ctx_arena && c < ctx_arena + CTX_ARENA; }

/* the monitor's own state is updated under one lock (the thread runner of C14 links this adapter too); the context's magic word
 * is read and written *without* it on purpose: a context shared between threads by the library shows as a race on it */
static pthread_mutex_t verif_idn_mu = PTHREAD_MUTEX_INITIALIZER;
#define LOCK() pthread_mutex_lock(&verif_idn_mu)
#define UNLOCK() pthread_mutex_unlock(&verif_idn_mu)

/* fault plan for the online monitor: the k-th idn_resconf_create from now fails (0 = none) */
long verif_idn_fail_create_countdown = 0, verif_idn_create_failures = 0;
void verif_idn_plan_create_failure(long k);
void verif_idn_plan_create_failure(long k) { verif_idn_fail_create_countdown = k; }

idn_result_t idn_resconf_initialize(void) { return idn_success; }

idn_result_t idn_resconf_create(idn_resconf_t *ctx)
{
    struct verif_idn_ctx *c;
    LOCK();
    if (verif_idn_fail_create_countdown > 0 && --verif_idn_fail_create_countdown == 0) {
        verif_idn_create_failures++;
        UNLOCK();
        return IDN2_MALLOC;                  /* *ctx is left untouched, as a failing constructor would */
    }
    if (verif_idn_creates >= CTX_ARENA) { fprintf(stderr, "adapter: context arena exhausted\n"); abort(); }
    c = &ctx_arena[verif_idn_creates];
    c->id = ++verif_idn_creates;
    verif_idn_live++;
    UNLOCK();
    c->magic = CTX_MAGIC_LIVE;
    *ctx = c;
    return idn_success;
}

void idn_resconf_destroy(idn_resconf_t ctx)
{
    if (ctx == NULL || !ctx_in_arena(ctx) || (ctx->magic != CTX_MAGIC_LIVE && ctx->magic != CTX_MAGIC_DEAD)) { LOCK(); verif_idn_bad_use++; UNLOCK(); return; }
    if (ctx->magic == CTX_MAGIC_DEAD) { LOCK(); verif_idn_double_destroy++; UNLOCK(); return; }
    ctx->magic = CTX_MAGIC_DEAD;
    LOCK();
    verif_idn_destroys++;
    verif_idn_live--;
    UNLOCK();
}

idn_result_t idn_res_encodename(idn_resconf_t ctx, idn_action_t actions, const char *from, char *to, size_t tolen)
{
    char *out = NULL;
    int rc;
    /* the real library interprets `actions`: anything but the documented encode action sets is a caller bug */
    int bad = (ctx == NULL || !ctx_in_arena(ctx) || ctx->magic != CTX_MAGIC_LIVE);
    LOCK();
    if (actions != IDN_ENCODE_REGIST && actions != IDN_ENCODE_LOOKUP) verif_idn_bad_actions++;
    verif_idn_encodes++;
    if (bad) verif_idn_bad_use++;
    UNLOCK();
    rc = idn2_to_ascii_8z(from, &out, IDN2_NONTRANSITIONAL);
    if (rc != IDN2_OK) { if (out) idn2_free(out); return rc; }
    if (strlen(out) + 1 > tolen) { idn2_free(out); return IDN2_TOO_BIG_DOMAIN; }
    strcpy(to, out);
    idn2_free(out);
    return idn_success;
}

const char *idn_result_tostring(idn_result_t r) { return idn2_strerror(r); }
