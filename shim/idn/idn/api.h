/* Adapter: the idnkit-2 API subset used by partial/idnkit/*.c and include/eav.h, mapped onto libidn2's converter and
 * instrumented with a create/destroy ledger (online monitor for C18).  Not part of libeav. */
#ifndef VERIF_SHIM_IDNKIT_API_H
#define VERIF_SHIM_IDNKIT_API_H
#include <stddef.h>
typedef int idn_result_t;            /* carries the libidn2 code unchanged */
#define idn_success 0
typedef struct verif_idn_ctx *idn_resconf_t;
typedef unsigned long idn_action_t;
#define IDN_ENCODE_REGIST 0x1UL
#define IDN_ENCODE_LOOKUP 0x2UL
idn_result_t idn_resconf_initialize(void);
idn_result_t idn_resconf_create(idn_resconf_t *ctx);
void idn_resconf_destroy(idn_resconf_t ctx);
idn_result_t idn_res_encodename(idn_resconf_t ctx, idn_action_t actions, const char *from, char *to, size_t tolen);
const char *idn_result_tostring(idn_result_t r);
#endif
