/* Adapter: the libidn (IDNA2003) API used by partial/idn/*.c, mapped onto libidn2's converter so that the three
 * back ends perform *equivalent IDN conversions* (C18).  Not part of libeav. */
#ifndef VERIF_SHIM_IDNA_H
#define VERIF_SHIM_IDNA_H
typedef int Idna_rc;
#define IDNA_SUCCESS 0
#define IDNA_ALLOW_UNASSIGNED 0x0001
#define IDNA_USE_STD3_ASCII_RULES 0x0002
int idna_to_ascii_lz(const char *input, char **output, int flags);
const char *idna_strerror(Idna_rc rc);
#endif
